"""C14 histories on two real bags and two real tagged bags (harness/bags.cpp) against coq/Bag.v.

The model (bstep / tstep of Bag.v) is evaluated by vm_compute inside Coq on exactly the histories the real
containers ran; what is compared:
  bags      per-rank contents while placement is deterministic (inserts, swap, local_shuffle), the global multiset
            always; size(), gather_to_vector() on all ranks / one rank, for_all against the same multiset;
            per-rank counts right after rebalance against the block partition
  tagged    every tag returned by async_insert, the (tag, value) maps of both bags at every observation,
            what async_visit_if_exists saw, size(), all_gather
"""
import os, random, re, shutil, hashlib, json
from . import *
from .traffic import ROUTINGS, POLICIES, RUNS
from . import partition as P

def gen_history(rng, idx):
    n, ppn = rng.choice([(1, 1), (2, 1), (2, 2), (3, 1), (4, 2), (4, 4), (5, 1), (6, 3), (7, 1)])
    ops = []
    nextv = [100]
    def val():
        nextv[0] += 1
        return nextv[0] if rng.random() < 0.8 else rng.choice([7, 7, 8])      # duplicates are legal in a bag
    # ---- bags
    for phase in range(rng.choice([2, 3, 5])):
        kind = rng.choice(['few', 'one-rank', 'rr', 'vec', 'mixed', 'empty'])
        w = rng.randrange(2)
        cnt = {'few': rng.randrange(0, n + 1), 'one-rank': rng.choice([1, n - 1, n + 1, 2 * n + 1, 17]), 'rr': rng.choice([n, 2 * n + 1, 9]),
               'vec': 3, 'mixed': rng.choice([5, 12, 30]), 'empty': 0}[kind]
        for i in range(max(cnt, 0)):
            frm = 0 if kind == 'one-rank' else rng.randrange(n)
            if kind == 'one-rank':
                ops.append(['bd', w, frm, n - 1 if idx % 2 else 0, val()])
            elif kind == 'rr':
                ops.append(['bi', w, frm, val()])
            elif kind == 'vec':
                vs = [val() for _ in range(rng.choice([0, 1, 4, 9]))]
                ops.append(['bv', w, frm, rng.randrange(n), len(vs)] + vs)
            else:
                k = rng.random()
                if k < 0.4:
                    ops.append(['bi', rng.randrange(2), frm, val()])
                elif k < 0.8:
                    ops.append(['bd', rng.randrange(2), frm, rng.randrange(n), val()])
                else:
                    vs = [val() for _ in range(rng.choice([0, 2, 5]))]
                    ops.append(['bv', rng.randrange(2), frm, rng.randrange(n), len(vs)] + vs)
        ops.append(['obs'])
        for _ in range(rng.choice([0, 1, 2])):
            k = rng.choice(['reb', 'gs', 'ls', 'swap', 'swap', 'bclr'])
            if k == 'swap':
                ops.append(['swap'])
            elif k in ('reb', 'bclr'):
                ops.append([k, rng.randrange(2)])
            else:
                ops.append([k, rng.randrange(2), rng.randrange(1000)])
            if rng.random() < 0.5:
                ops.append(['obs'])       # otherwise the next phase's inserts follow the collective operation directly
    # ---- tagged bags: phases of writes (inserts / erases of quiesced tags / swaps), then reads
    cnt = [[0] * n, [0] * n]
    live = [[], []]          # tags believed alive per bag (generator's bookkeeping only: chooses interesting erase / visit targets)
    for phase in range(rng.choice([2, 3, 4])):
        quiesced = [list(live[0]), list(live[1])]
        for _ in range(rng.choice([1, 4, 10])):
            k = rng.random()
            w = rng.randrange(2)
            if k < 0.6:
                frm = rng.randrange(n) if rng.random() < 0.7 else 0          # unequal insert counts per rank and bag
                tag = (frm << 40) + cnt[w][frm]
                cnt[w][frm] += 1
                live[w].append(tag)
                ops.append(['ti', w, frm, val()])
            elif k < 0.8 and quiesced[w]:
                tag = rng.choice(quiesced[w])
                quiesced[w].remove(tag)
                if tag in live[w]:
                    live[w].remove(tag)
                ops.append(['te', w, rng.randrange(n), tag])
            elif k < 0.84:
                ops.append(['tclr', w])
                live[w] = []; quiesced[w] = []
            elif k < 0.94:
                ops.append(['tswap'])
                cnt[0], cnt[1] = cnt[1], cnt[0]
                live[0], live[1] = live[1], live[0]
                quiesced[0], quiesced[1] = quiesced[1], quiesced[0]
        ops.append(['tobs'])
        for _ in range(rng.choice([0, 3, 6])):
            w = rng.randrange(2)
            pool = live[w] + live[1 - w][:2] + [(n << 40) + 3]
            ops.append(['tv', w, rng.randrange(n), rng.choice(pool)])
        ops.append(['tobs'])
    return {'n': n, 'ppn': ppn, 'routing': rng.choice(ROUTINGS), 'bufkb': rng.choice([0, 1, 16384]), 'policy': rng.choice(POLICIES),
            'seed': rng.randrange(1, 1 << 30), 'ops': ops}

def text_of(h):
    return '# n=%(n)d ppn=%(ppn)d routing=%(routing)s bufkb=%(bufkb)d policy=%(policy)s seed=%(seed)d\n' % h + \
           ''.join(' '.join(map(str, o)) + '\n' for o in h['ops'])

def run_history(h):
    exe, err = compile_sim('bags', ['harness/bags.cpp'])
    if exe is None:
        return {'verdict': 'build', 'detail': err[-1500:], 'lines': []}
    t = text_of(h)
    key = hashlib.sha256((os.path.basename(exe) + t).encode()).hexdigest()[:20]
    cache = os.path.join(RUNS, 'bg-' + key + '.json')
    if os.path.exists(cache):
        try:
            return json.load(open(cache))
        except Exception:
            pass
    d = os.path.join(RUNS, 'bg-' + key)
    os.makedirs(d, exist_ok=True)
    p = os.path.join(d, 'hist.txt')
    open(p, 'w').write(t)
    r = simrun(exe, h['n'], [p], ppn=h['ppn'], seed=h['seed'], policy=h['policy'], wall=60, spin=400000,
               env={'YGM_COMM_ROUTING': h['routing'], 'YGM_COMM_BUFFER_SIZE_KB': h['bufkb'], 'YGM_COMM_IRECV_SIZE_KB': 4096})
    out = {'verdict': r['verdict'], 'detail': r['detail'], 'lines': r['out'], 'cmd': r['cmd']}
    shutil.rmtree(d, ignore_errors=True)
    json.dump(out, open(cache, 'w'))
    return out

def parse(h, r):
    """observations of the implementation, keyed by observation number"""
    O, TO, T = {}, {}, {}
    for l in r['lines']:
        m = re.match(r'O (\d+) (\d+) A :(.*?) \| B :(.*?) \| (\d+) (\d+) \| GA :(.*?) \| GB :(.*?) \| G0 :(.*?) \| G1 :(.*?) \| FA :(.*)$', l)
        if m:
            g = m.groups()
            ints = lambda s: [int(x) for x in s.split()]
            O[(int(g[0]), int(g[1]))] = dict(A=ints(g[2]), B=ints(g[3]), sa=int(g[4]), sb=int(g[5]), GA=ints(g[6]), GB=ints(g[7]), G0=ints(g[8]), G1=ints(g[9]), FA=ints(g[10]))
            continue
        m = re.match(r'TO (\d+) (\d+) A :(.*?) \| B :(.*?) \| V :(.*?) \| (\d+) (\d+) \| AG :(.*)$', l)
        if m:
            g = m.groups()
            kv = lambda s: [tuple(int(y) for y in x.split('=')) for x in s.split()]
            TO[(int(g[0]), int(g[1]))] = dict(A=kv(g[2]), B=kv(g[3]), V=kv(g[4]), sa=int(g[5]), sb=int(g[6]), AG=kv(g[7]))
            continue
        m = re.match(r'T (\d+) (\d+) (\d+)$', l)
        if m:
            T[int(m.group(1))] = (int(m.group(2)), int(m.group(3)))
    return O, TO, T

def oracle_and_case(h, r):
    """Oracles that need no model (gathers, sizes, for_all, rebalance counts against the multiset inserted), and the
    Coq case text: the operations with the implementation's observations, to be checked against Bag.v by vm_compute."""
    fails = []
    def F(what, **kw):
        d = {'what': what, 'history': text_of(h), 'cmd': r.get('cmd', '')}
        d.update(kw)
        fails.append(d)
    if r['verdict'] != 'ok':
        F('run ended with %s %s' % (r['verdict'], r['detail']), states=[l for l in r['lines'] if l.startswith(('STATE', 'EXIT'))][:8])
        return fails, None, {}
    n = h['n']
    O, TO, T = parse(h, r)
    spec = [[], []]           # spec_step of Bag.v: the multisets
    det = [True, True]        # is the per-rank placement determined by the history?
    items, titems = [], []
    nobs = 0
    last = None
    stats = {'obs': 0, 'tags': 0, 'swaps': 0, 'under_ranks': 0}
    zl = lambda l: '[' + '; '.join('%d' % x for x in l) + ']%Z'
    b = lambda w: 'true' if int(w) else 'false'
    for idx, o in enumerate(h['ops'], 1):
        k = o[0]
        if k == 'bi':
            spec[o[1]].append(o[3]); items.append('IB (BIns %s %d %d)' % (b(o[1]), o[2], o[3]))
        elif k == 'bd':
            spec[o[1]].append(o[4]); items.append('IB (BInsD %s %d %d)' % (b(o[1]), o[3], o[4]))
        elif k == 'bv':
            spec[o[1]] += o[5:]; items.append('IB (BInsV %s %d %s)' % (b(o[1]), o[3], zl(o[5:])))
        elif k == 'reb':
            det[o[1]] = False; items.append('IB (BShip %s 0 0 0)' % b(o[1]))
        elif k == 'gs':
            det[o[1]] = False; items.append('IB (BScatter %s [])' % b(o[1]))
        elif k == 'ls':
            items.append('IB (BLocalShuffle %s)' % b(o[1]))
        elif k == 'bclr':
            spec[o[1]] = []; det[o[1]] = True; items.append('IB (BClear %s)' % b(o[1]))
        elif k == 'tclr':
            titems.append('IT (TClear %s) None' % b(o[1]))
        elif k == 'swap':
            spec[0], spec[1] = spec[1], spec[0]; det[0], det[1] = det[1], det[0]; items.append('IB BSwap'); stats['swaps'] += 1
        elif k == 'obs':
            nobs += 1
            stats['obs'] += 1
            try:
                obs = [O[(nobs, rk)] for rk in range(n)]
            except KeyError:
                F('observation %d is missing from the output' % nobs); return fails, None, stats
            for w, nm in ((0, 'A'), (1, 'B')):
                glob = sorted(x for ob in obs for x in ob[nm])
                if glob != sorted(spec[w]):
                    F('bag %s holds %s after %d operations; inserted (and swapped) so far: %s' % (nm, glob[:40], idx, sorted(spec[w])[:40]), op_index=idx)
                if len(spec[w]) < n:
                    stats['under_ranks'] += 1
            for rk, ob in enumerate(obs):
                if (ob['sa'], ob['sb']) != (len(spec[0]), len(spec[1])):
                    F('size() on rank %d is (%d, %d), the bags hold (%d, %d)' % (rk, ob['sa'], ob['sb'], len(spec[0]), len(spec[1])), op_index=idx); break
                if ob['GA'] != sorted(spec[0]) or ob['GB'] != sorted(spec[1]):
                    F('gather_to_vector() on rank %d is not the full multiset' % rk, op_index=idx, got=ob['GA'][:30], want=sorted(spec[0])[:30]); break
                if ob['FA'] != sorted(ob['A']):
                    F('for_all on rank %d did not present exactly the local items' % rk, op_index=idx); break
                if ob['G0'] != (sorted(spec[0]) if rk == 0 else []) or ob['G1'] != (sorted(spec[1]) if rk == n - 1 else []):
                    F('gather_to_vector(dest) on rank %d: %s / %s' % (rk, ob['G0'][:20], ob['G1'][:20]), op_index=idx); break
            if last and last[0] == 'reb':
                w = last[1]
                counts = [len(ob['AB'[w]]) for ob in obs]
                want = P.blk(len(spec[w]), n)[2]
                if counts != want:
                    F('per-rank counts after rebalance are %s, the block partition of %d items on %d ranks is %s' % (counts, len(spec[w]), n, want), op_index=idx)
            items.append('IO %s [%s] %s [%s]' % ('true' if det[0] else 'false', '; '.join(zl(ob['A']) for ob in obs),
                                                 'true' if det[1] else 'false', '; '.join(zl(ob['B']) for ob in obs)))
        elif k == 'ti':
            if idx not in T or T[idx][0] != o[2]:
                F('no tag was printed for tagged insert %d' % idx); return fails, None, stats
            stats['tags'] += 1
            titems.append('IT (TIns %s %d %d) (Some %d%%N)' % (b(o[1]), o[2], o[3], T[idx][1]))
        elif k == 'te':
            titems.append('IT (TErase %s %d%%N) None' % (b(o[1]), o[3]))
        elif k == 'tswap':
            titems.append('IT TSwap None'); stats['swaps'] += 1
        elif k == 'tv':
            titems.append(('tv', o))      # resolved at the next tobs
        elif k == 'tobs':
            nobs += 1
            try:
                obs = [TO[(nobs, rk)] for rk in range(n)]
            except KeyError:
                F('observation %d is missing from the output' % nobs); return fails, None, stats
            seen = [kv for ob in obs for kv in ob['V']]       # visitors run (and are recorded) on the owner of the tag
            for i, it in enumerate(titems):
                if isinstance(it, tuple):
                    o2 = it[1]
                    hit = [kv for kv in seen if kv[0] == o2[3] * 2 + int(o2[1])]
                    if hit:
                        seen.remove(hit[0])
                    titems[i] = 'IV %s %d%%N %s' % (b(o2[1]), o2[3], ('(Some %d%%Z)' % hit[0][1]) if hit else 'None')
            if seen:
                F('async_visit_if_exists ran a visitor that no visit asked for: %s' % seen[:3], op_index=idx)
            A = sorted(kv for ob in obs for kv in ob['A'])
            B_ = sorted(kv for ob in obs for kv in ob['B'])
            for rk, ob in enumerate(obs):
                if (ob['sa'], ob['sb']) != (len(A), len(B_)):
                    F('tagged size() on rank %d is (%d, %d), the maps hold (%d, %d)' % (rk, ob['sa'], ob['sb'], len(A), len(B_)), op_index=idx); break
                if sorted(ob['AG']) != sorted(ob['A']):
                    F('all_gather of the local tags on rank %d returned %s' % (rk, ob['AG'][:6]), op_index=idx); break
            pl = lambda l: '[' + '; '.join('(%d%%N, %d%%Z)' % kv for kv in l) + ']'
            titems.append('IS %s %s' % (pl(A), pl(B_)))
        last = o
    case = '(%d, [%s], [%s])' % (n, ';\n   '.join(items), ';\n   '.join(t for t in titems if isinstance(t, str)))
    return fails, case, stats

COQ_CHECK = '''From Coq Require Import ZArith NArith List Bool. Import ListNotations.
From Ygm Require Import Bag.
Inductive bitem := IB (o : bop) | IO (detA : bool) (a : list (list Z)) (detB : bool) (b : list (list Z)).
Inductive titem := IT (o : top) (ret : option N) | IV (w : bool) (tag : N) (seen : option Z) | IS (a b : list (N * Z)).
Fixpoint ins (x : Z) (l : list Z) := match l with [] => [x] | y :: t => if (x <=? y)%%Z then x :: l else y :: ins x t end.
Definition isort (l : list Z) := fold_right ins [] l.
Fixpoint leqb (a b : list Z) := match a, b with [], [] => true | x :: a', y :: b' => (x =? y)%%Z && leqb a' b' | _, _ => false end.
Fixpoint lleqb (a b : list (list Z)) := match a, b with [], [] => true | x :: a', y :: b' => leqb x y && lleqb a' b' | _, _ => false end.
Definition agree (det : bool) (m : bag) (obs : list (list Z)) :=
  if det then lleqb (map isort (loc m)) obs else leqb (isort (concat (loc m))) (isort (concat obs)).
Fixpoint bcheck (s : bag * bag) (l : list bitem) (i : nat) : option nat :=
  match l with
  | [] => None
  | IB o :: t => bcheck (bstep s o) t (S i)
  | IO da a db b :: t => if agree da (fst s) a && agree db (snd s) b then bcheck s t (S i) else Some i
  end.
Fixpoint kins (x : N * Z) (l : list (N * Z)) := match l with [] => [x] | y :: t => if (fst x <=? fst y)%%N then x :: l else y :: kins x t end.
Definition ksort (l : list (N * Z)) := fold_right kins [] l.
Fixpoint kveqb (a b : list (N * Z)) := match a, b with [], [] => true | (k, v) :: a', (k2, v2) :: b' => (k =? k2)%%N && (v =? v2)%%Z && kveqb a' b' | _, _ => false end.
Definition oeqN (a b : option N) := match a, b with None, None => true | Some x, Some y => (x =? y)%%N | _, _ => false end.
Definition oeqZ (a b : option Z) := match a, b with None, None => true | Some x, Some y => (x =? y)%%Z | _, _ => false end.
Fixpoint tcheck (s : tbag * tbag) (l : list titem) (i : nat) : option nat :=
  match l with
  | [] => None
  | IT o r :: t => match tstep s o with Some (s', r') => if oeqN r r' then tcheck s' t (S i) else Some i | None => Some i end
  | IV w tag seen :: t => if oeqZ (lookup tag (tm (if w then snd s else fst s))) seen then tcheck s t (S i) else Some i
  | IS a b :: t => if kveqb (ksort (tm (fst s))) a && kveqb (ksort (tm (snd s))) b then tcheck s t (S i) else Some i
  end.
Definition check (c : nat * list bitem * list titem) : option nat * option nat :=
  let '(R, bl, tl) := c in (bcheck (binit R, binit R) bl 0, tcheck (tinit R, tinit R) tl 0).
Definition cases : list (nat * list bitem * list titem) := [
%s
].
Definition results := map check cases.
Definition bad := filter (fun '(i, r) => match r with (None, None) => false | _ => true end) (combine (seq 0 (length cases)) results).
Eval vm_compute in (length cases, bad).
'''

def coq_check(cases, tag):
    text = COQ_CHECK % ';\n'.join(cases)
    rc, out = coq_eval('bags_' + tag, text)
    flat = ' '.join(out.split())
    m = re.search(r'= \((\d+), (\[.*?\])\) : nat \*', flat)
    if rc != 0 or not m:
        return None, 'the bag model could not be evaluated on the recorded histories: ' + out[-800:]
    bad = re.findall(r'\((\d+), \((None|Some (\d+)), (None|Some (\d+))\)\)', m.group(2))
    return [(int(x[0]), None if x[1] == 'None' else int(x[2]), None if x[3] == 'None' else int(x[4])) for x in bad], None

def gather_while_inserting(seed, tier):
    """gather_to_vector(dest) / gather_to_vector() entered by the idle ranks while one rank is still inserting and is held by
    back-pressure (few posted receives, rendezvous sends): the call has to return the full multiset."""
    exe, err = compile_sim('gather_nb', ['harness/gather_nb.cpp'])
    if exe is None:
        return [{'what': 'harness/gather_nb.cpp does not compile against the current headers', 'log': err[-1500:]}], 0
    cfgs = [(2, 2, 1, 1200, 150, 1, 1), (3, 3, 1, 400, 1, 0, 2), (3, 1, 0, 60, 1, 0, 1), (2, 1, 16384, 50, 10, 1, 8)]
    if tier != 'quick':
        cfgs += [(n, p, kb, it, per, mode, nir) for (n, p) in ((2, 2), (3, 1), (4, 2), (5, 5)) for kb, it, per in ((1, 2000, 100), (0, 80, 1))
                 for mode in (0, 1) for nir in (1, 2)]
    fails, nobs = [], 0
    for i, (n, ppn, kb, items, per, mode, nir) in enumerate(cfgs):
        sd = seed * 211 + i
        r = simrun(exe, n, [items, per, mode], ppn=ppn, seed=sd, policy=['uniform', 'late', 'starve'][i % 3], eager=0, wall=60, spin=400000,
                   env={'YGM_COMM_BUFFER_SIZE_KB': kb, 'YGM_COMM_NUM_IRECVS': nir, 'YGM_COMM_IRECV_SIZE_KB': 4096})
        cfg = '%d ranks, %d KB buffer, %d posted receive(s), rank 0 inserts %d items (%s)' % (n, kb, nir, items, 'to the last rank' if mode else 'round robin')
        if r['verdict'] != 'ok':
            fails.append({'what': 'gather_to_vector entered while rank 0 is still inserting: run ended with %s %s [%s]' % (r['verdict'], r['detail'], cfg), 'cmd': r['cmd'],
                          'states': [l for l in r['out'] if l.startswith(('STATE', 'EXIT'))][:8]})
            continue
        tot = items * (items - 1) // 2
        tot2 = tot + sum(items + k for k in range(items))
        for l in r['out']:
            t = l.split()
            if t and t[0] == 'G0':
                nobs += 1
                want = (items, tot) if int(t[1]) == 0 else (0, 0)
                if (int(t[2]), int(t[3])) != want:
                    fails.append({'what': 'gather_to_vector(0) on rank %s returned %s items (sum %s), the bag holds %d (sum %d) [%s]' % (t[1], t[2], t[3], items, tot, cfg), 'cmd': r['cmd']})
            elif t and t[0] == 'GA':
                nobs += 1
                if (int(t[2]), int(t[3])) != (2 * items, tot2):
                    fails.append({'what': 'gather_to_vector() on rank %s returned %s items (sum %s), the bag holds %d (sum %d) [%s]' % (t[1], t[2], t[3], 2 * items, tot2, cfg), 'cmd': r['cmd']})
    return fails, nobs

def evaluate(seed, count, tag='q'):
    rng = random.Random(seed * 7703 + 5)
    hs = [gen_history(rng, i) for i in range(count)]
    import concurrent.futures
    with concurrent.futures.ThreadPoolExecutor(max_workers=NCPU) as ex:
        rs = list(ex.map(run_history, hs))
    fails, cases, which, stats = [], [], [], []
    for h, r in zip(hs, rs):
        if r['verdict'] == 'build':
            return {'msg': None, 'failures': [{'what': 'harness/bags.cpp does not compile against the current headers', 'log': r['detail']}], 'evaluations': 0, 'validated': 0, 'stats': {}}
        f, case, st = oracle_and_case(h, r)
        fails += f
        stats.append(st)
        if case is not None:
            cases.append(case); which.append(h)
    msg = None
    validated = 0
    if cases:
        bad, err = coq_check(cases, tag)
        if err:
            msg = err
        else:
            validated = len(cases) - len(bad)
            for i, bi, ti in bad[:5]:
                h = which[i]
                what = []
                if bi is not None:
                    what.append('bag observation / operation #%d of the bag part' % bi)
                if ti is not None:
                    what.append('tagged-bag item #%d (a returned tag, a visit, or the contents at an observation)' % ti)
                fails.append({'what': 'Bag.v and the implementation disagree at ' + ' and '.join(what), 'history': text_of(h), 'model': 'coq/Bag.v bstep/tstep evaluated by vm_compute (coq/Gen/Tab_bags_%s.v)' % tag})
    tot = lambda k: sum(s.get(k, 0) for s in stats)
    gf, gobs = gather_while_inserting(seed, 'quick' if tag == 'q' else 'thorough')
    fails += gf
    return {'msg': msg, 'failures': fails, 'evaluations': len(hs), 'validated': validated,
            'stats': {'histories': len(hs), 'gathers_entered_while_a_rank_is_inserting': gobs, 'observations': tot('obs'), 'tags_returned': tot('tags'), 'swaps': tot('swaps'), 'observations_with_fewer_items_than_ranks': tot('under_ranks'),
                      'operations': sum(len(h['ops']) for h in hs), 'ranks': sorted({h['n'] for h in hs})},
            'sample': text_of(hs[0])[:1200] if hs else ''}
