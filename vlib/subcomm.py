"""C01 on communicators other than MPI_COMM_WORLD (harness/subcomm.cpp under simmpi): every message runs exactly once, on the rank
of the communicator it was addressed to, with its payload."""
from . import *

def explore(seed, tier):
    exe, err = compile_sim('subcomm', ['harness/subcomm.cpp'])
    if exe is None:
        return [{'what': 'subcomm harness does not compile against the current headers', 'log': (err or '')[-1500:]}], 0
    cfgs = [(2, 2, 'uniform', 'NONE'), (3, 1, 'late', 'NR'), (4, 2, 'early', 'NLNR'), (5, 5, 'uniform', 'NONE')]
    if tier != 'quick':
        # (ranks per node even, 1, or a single node: the odd / even halves then have the same number of ranks on every node -
        # ygm's layout and routers are defined for uniform layouts only)
        cfgs += [(6, 2, 'late', 'NLNR'), (8, 2, 'uniform', 'NR'), (7, 1, 'starve', 'NONE'), (8, 4, 'delayreduce', 'NLNR'), (1, 1, 'uniform', 'NONE'), (3, 3, 'early', 'NR')]
    fails, nmsg = [], 0
    K = 3
    for i, (n, ppn, pol, rt) in enumerate(cfgs):
        s = seed * 17 + i
        r = simrun(exe, n, [], ppn=ppn, seed=s, policy=pol, wall=120, env={'YGM_COMM_ROUTING': rt, 'YGM_COMM_BUFFER_SIZE_KB': [0, 1, 16384][i % 3]})
        if r['verdict'] != 'ok':
            fails.append({'what': 'sub-communicator run on %d ranks ended with %s %s' % (n, r['verdict'], r['detail']), 'cmd': r['cmd'],
                          'states': [l for l in r['out'] if l.startswith(('STATE', 'EXIT'))][:8]})
            continue
        got = {}          # (scenario, colour, executing rank) -> list of records
        sizes = {}
        for l in r['out']:
            if l.startswith('X ') and ':' in l:
                h = l.split(':', 1)[0].split()
                sc, col, rk, sz = int(h[1]), int(h[2]), int(h[3]), int(h[4])
                sizes[(sc, col)] = sz
                got[(sc, col, rk)] = [tuple(map(int, t.split(','))) for t in l.split(':', 1)[1].split()]
        want_groups = {(0, 0): n}
        for col in (0, 1):
            m = len([w for w in range(n) if w % 2 == col])
            if m:
                want_groups[(1, col)] = m
        for (sc, col), sz in want_groups.items():
            if sizes.get((sc, col)) != sz:
                fails.append({'what': 'scenario %d colour %d: communicator size reported %s, expected %d' % (sc, col, sizes.get((sc, col)), sz), 'cmd': r['cmd']}); continue
            for rk in range(sz):
                recs = got.get((sc, col, rk))
                if recs is None:
                    fails.append({'what': 'scenario %d colour %d: no output of rank %d' % (sc, col, rk), 'cmd': r['cmd']}); continue
                want = sorted((sc, col, src, rk, k, 1) for src in range(sz) for k in range(K))
                nmsg += len(want)
                if sorted(recs) != want:
                    extra = [x for x in recs if x not in want][:3]
                    missing = [x for x in want if x not in recs][:3]
                    fails.append({'what': 'ygm::comm on a %s communicator of %d ranks: rank %d executed %d messages, %d were addressed to it; not addressed to it or damaged (scenario, colour, src, dst, seq, payload ok): %s; missing: %s'
                                          % ('reversed' if sc == 0 else 'split', sz, rk, len(recs), len(want), extra, missing), 'cmd': r['cmd']})
    return fails, nmsg
