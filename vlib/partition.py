"""Shared by C10 / C13 / C14: run harness/partition_enum.cpp under simmpi and evaluate the results."""
import os, re
from . import *

def harness():
    return compile_sim('partition_enum', ['harness/partition_enum.cpp'])

def run_mode(mode, arg, sizes, seed=1):
    """Returns (lines_by_R, problems) ; a crash/deadlock is a problem with the last BEGIN line as its input."""
    exe, err = harness()
    if exe is None:
        return None, [{'what': 'partition_enum does not compile against the current headers', 'log': err[-1500:]}]
    out, probs = {}, []
    pols = ['uniform', 'late', 'early']
    for i, R in enumerate(sizes):
        ppn = 1 if R % 2 else 2
        r = simrun(exe, R, [mode, arg], ppn=ppn if R > 1 else 1, seed=seed + i, policy=pols[i % 3], wall=120)
        out[R] = r['out']
        if r['verdict'] != 'ok':
            begins = [l for l in r['out'] if l.startswith('BEGIN')]
            probs.append({'what': 'run ended with %s %s' % (r['verdict'], r['detail']), 'R': R,
                          'last_case': begins[-1] if begins else None,
                          'states': [l for l in r['out'] if l.startswith(('STATE', 'EXIT'))][:12],
                          'cmd': r['cmd']})
    return out, probs

def blk(len_, R):
    s, m = divmod(len_, R)
    sizes = [s + (1 if r < m else 0) for r in range(R)]
    starts = [r * s + min(r, m) for r in range(R)]
    return s, m, sizes, starts

# ---- arrays ---------------------------------------------------------------

class _ArrayTable(dict):
    """A lines by (R, rank, len); .copies: the same for a copy-constructed array (AC lines)"""
    copies = None

def parse_array(lines_by_R):
    A, F, V, I = _ArrayTable(), {}, {}, {}
    A.copies = {}
    for R, lines in lines_by_R.items():
        for l in lines:
            if l[:3] == 'AC ' and ':' in l:
                head, tail = l.split(':', 1)
                h = head.split()
                A.copies[(int(h[1]), int(h[2]), int(h[3]))] = (list(map(int, h[4:8])), tail.split())
                continue
            if l[:3] == 'WR ' and ':' in l:
                head, tail = l.split(':', 1)
                h = head.split()
                A.copies[('wr', int(h[1]), int(h[2]))] = tail.split()
                continue
            if l[:3] == 'WZ ' and ':' in l:
                head, tail = l.split(':', 1)
                h = head.split()
                A.copies[('wz', int(h[1]), int(h[2]))] = tail.split()
                continue
            if l[:3] == 'MC ' and ':' in l:
                head, tail = l.split(':', 1)
                h = head.split()
                A.copies[('mine', int(h[1]), int(h[2]), int(h[3]))] = tail.split()
                continue
            if l[:2] in ('A ', 'F ', 'V ', 'I ') and ':' in l:
                head, tail = l.split(':', 1)
                h = head.split()
                key = (int(h[1]), int(h[2]), int(h[3]))     # R, rank, len
                toks = tail.split()
                if h[0] == 'A':
                    A[key] = (list(map(int, h[4:8])), toks)
                elif h[0] == 'F':
                    F[key] = toks
                elif h[0] == 'V':
                    V[key] = toks
                else:
                    I[key] = toks
    return A, F, V, I

def oracle_array_partition(A, F, maxlen):
    """C10's array clauses."""
    fails, n, nontriv = [], 0, 0
    # a copy-constructed array has the partition of the original: block sizes, start, local length, owner of every index, is_mine
    copies = getattr(A, 'copies', None) or {}
    for key, val in sorted(copies.items(), key=lambda kv: str(kv[0])):
        if not isinstance(key[0], int) or key not in A:
            continue
        if A[key][0] != val[0] or A[key][1] != val[1]:
            fails.append({'what': 'copy-constructed array of length %d on %d ranks: rank %d reports (small, large, start, local length) %s and owners %s, the original %s and %s'
                                  % (key[2], key[0], key[1], val[0], val[1][:12], A[key][0], A[key][1][:12])})
        mine = copies.get(('mine',) + key)
        want = [str(i) for i in range(key[2]) if A[key][1][i] == str(key[1])]
        if mine is not None and mine != want:
            fails.append({'what': 'copy-constructed array of length %d on %d ranks: is_mine on rank %d holds for %s, the original owns %s'
                                  % (key[2], key[0], key[1], mine[:12], want[:12])})
    Rs = sorted({k[0] for k in A})
    for R in Rs:
        for len_ in range(maxlen + 1):
            n += 1
            if len_ % R or len_ < R:
                nontriv += 1
            owners = None
            try:
                for r in range(R):
                    o = A[(R, r, len_)][1]
                    if owners is None:
                        owners = o
                    elif o != owners:
                        fails.append({'what': 'owner() differs between ranks', 'R': R, 'len': len_, 'rank': r}); break
                owners = list(map(int, owners))
            except KeyError:
                fails.append({'what': 'no output for this case (rank crashed?)', 'R': R, 'len': len_}); continue
            if any(not (0 <= o < R) for o in owners):
                fails.append({'what': 'owner out of range', 'R': R, 'len': len_, 'owners': owners}); continue
            seen = {}
            for r in range(R):
                f = F.get((R, r, len_))
                if f is None:
                    fails.append({'what': 'for_all output missing', 'R': R, 'len': len_, 'rank': r}); break
                idxs = [int(x) for x in f if x.lstrip('-').isdigit()]
                if f[-1] != 'ok':
                    fails.append({'what': 'fresh array does not hold its default value', 'R': R, 'len': len_, 'rank': r})
                if idxs != list(range(idxs[0], idxs[0] + len(idxs))) if idxs else False:
                    fails.append({'what': 'indices owned by a rank are not contiguous', 'R': R, 'len': len_, 'rank': r, 'idxs': idxs})
                for x in idxs:
                    if x in seen:
                        fails.append({'what': 'index presented by two ranks', 'R': R, 'len': len_, 'index': x})
                    seen[x] = r
                if A[(R, r, len_)][0][3] != len(idxs):
                    fails.append({'what': 'local vector length differs from the number of owned indices', 'R': R, 'len': len_, 'rank': r})
            if sorted(seen) != list(range(len_)):
                fails.append({'what': 'owned ranges do not cover [0,len)', 'R': R, 'len': len_, 'covered': sorted(seen)})
                continue
            cnt = [sum(1 for x in seen.values() if x == r) for r in range(R)]
            if max(cnt) - min(cnt) > 1:
                fails.append({'what': 'block sizes differ by more than one', 'R': R, 'len': len_, 'sizes': cnt})
            for i, o in enumerate(owners):
                if seen.get(i) != o:
                    fails.append({'what': 'owner(i) is not the rank that stores i', 'R': R, 'len': len_, 'index': i, 'owner': o, 'stored_on': seen.get(i)})
                    break
            if len(fails) > 30:
                break
    return n, nontriv, fails

def oracle_array_updates(A, V, I, maxlen):
    """C13's clauses on the enumeration: one update per element lands exactly there; index round trip."""
    fails, n, nontriv = [], 0, 0
    Rs = sorted({k[0] for k in A})
    # every named update wrapper once: element 6, operand 4 (harness/partition_enum.cpp)
    WNAMES = ['bit_and', 'bit_or', 'bit_xor', 'logical_and', 'logical_or', 'multiplies', 'divides', 'plus', 'minus', 'increment', 'decrement',
              'set', 'unary_op_update_value(3x+1)', 'visit(v*10+index)', 'untouched', 'untouched', 'untouched']
    WEXP = [4, 6, 2, 1, 1, 24, 1, 10, 2, 7, 5, 4, 19, 73, 6, 6, 6]
    copies = getattr(A, 'copies', None) or {}
    for R in Rs:
        got = {}
        for r in range(R):
            for tok in copies.get(('wr', R, r), []):
                i, v = tok.split('=')
                got[int(i)] = got.get(int(i), []) + [int(v)]
        if not got:
            if any(k[0] == 'wr' for k in copies):
                fails.append({'what': 'no wrapper results on %d ranks' % R})
            continue
        for i, want in enumerate(WEXP):
            if got.get(i) != [want]:
                fails.append({'what': 'array<long> element 6 after async_%s with operand 4 (index %d, %d ranks) is %s, expected %d' % (WNAMES[i], i, R, got.get(i), want), 'R': R})
    for R in Rs:
        gz = {}
        for r in range(R):
            for tok in copies.get(('wz', R, r), []):
                i, v = tok.split('=')
                gz[int(i)] = gz.get(int(i), []) + [int(v)]
        for i, (nm, want) in enumerate((('bit_and', 0), ('bit_or', 6), ('bit_xor', 6), ('logical_and', 0), ('logical_or', 1), ('multiplies', 0), ('plus', 6), ('minus', 6))):
            if gz and gz.get(i) != [want]:
                fails.append({'what': 'array<long> element 6 after async_%s with operand 0 (index %d, %d ranks) is %s, expected %d' % (nm, i, R, gz.get(i), want), 'R': R})
    for R in Rs:
        for len_ in range(maxlen + 1):
            n += 1
            if len_ % R or len_ < R:
                nontriv += 1
            vals = {}
            for r in range(R):
                for tok in V.get((R, r, len_), []):
                    i, v = tok.split('=')
                    if int(i) in vals:
                        fails.append({'what': 'index presented twice by for_all', 'R': R, 'len': len_, 'index': int(i)})
                    vals[int(i)] = int(v)
                for tok in I.get((R, r, len_), []):
                    i, li, gi = map(int, tok.split('>'))
                    if gi != i:
                        fails.append({'what': 'global_index(local_index(i)) != i', 'R': R, 'len': len_, 'index': i, 'local': li, 'back': gi})
            exp = {i: 7 + i + 1 for i in range(len_)}
            if vals != exp:
                bad = [i for i in range(len_) if vals.get(i) != exp[i]][:5]
                fails.append({'what': 'after one += (i+1) per element the array is not default+i+1', 'R': R, 'len': len_, 'first_bad_indices': bad,
                              'got': {i: vals.get(i) for i in bad}})
            if len(fails) > 30:
                break
    return n, nontriv, fails

def coq_array_table(A, maxlen):
    """The generated array_resize / array_owner evaluated in Coq against what the real array computed."""
    rows = []
    for (R, r, len_), (flds, owners) in sorted(A.items()):
        if len_ > maxlen:
            continue
        rows.append('(%d, %d, %d, (%d, %d, %d, %d), [%s])' % (R, r, len_, flds[0], flds[1], flds[3], flds[2], '; '.join(owners)))
    text = '''From Coq Require Import ZArith List Bool. Import ListNotations.
From Ygm Require Import Gen.CArith Gen.Gen_array.
Local Open Scope Z_scope.
Definition tab : list (Z * Z * Z * (Z * Z * Z * Z) * list Z) := [
%s].
Definition v0 R r := {| m_global_size := 0; m_small_block_size := 0; m_large_block_size := 0; m_local_start_index := 0; m_comm := {| comm_size := R; comm_rank := r |} |}.
Fixpoint leqb (a : list (option Z)) (b : list Z) := match a, b with [], [] => true | Some x :: a', y :: b' => (x =? y) && leqb a' b' | _, _ => false end.
Definition row_ok (row : Z * Z * Z * (Z * Z * Z * Z) * list Z) : bool :=
  let '(R, r, len, (small, large, vsize, start), owners) := row in
  match array_resize (v0 R r) (Some len) with
  | Some (g, s, l, vs, st) =>
      (g =? len) && (s =? small) && (l =? large) && (vs =? vsize) && (st =? start) &&
      leqb (map (fun i => array_owner {| m_global_size := g; m_small_block_size := s; m_large_block_size := l; m_local_start_index := st; m_comm := {| comm_size := R; comm_rank := r |} |} (Some (Z.of_nat i))) (seq 0 (Z.to_nat len))) owners
  | None => false end.
Definition first_bad := find (fun r => negb (row_ok r)) tab.
Eval vm_compute in (length tab, match first_bad with None => None | Some (R, r, len, _, _) => Some (R, r, len) end).
''' % ';\n'.join(rows)
    rc, out = coq_eval('array', text)
    m = re.search(r'=\s*\((\d+)%?\w*,\s*(None|Some\s*\(([^)]*)\))', out)
    if rc != 0 or not m:
        return 0, 'coqc failed on Tab_array.v: ' + out[-1200:]
    if m.group(2) == 'None':
        return int(m.group(1)), None
    return int(m.group(1)), 'generated array_resize/array_owner disagree with the real array at (R, rank, len) = (%s)' % m.group(3)

# ---- hash -------------------------------------------------------------------

def oracle_hash(lines_by_R):
    fails, n = [], 0
    rows = []
    for R, lines in lines_by_R.items():
        per_rank = {}
        for l in lines:
            if l.startswith(('HI ', 'HS ', 'HL ')) and ':' in l:
                head, tail = l.split(':', 1)
                h = head.split()
                per_rank.setdefault(h[0], {})[int(h[2])] = [t.split(',') for t in tail.split()]
        for kind, byrank in per_rank.items():
            if len(byrank) != R:
                fails.append({'what': 'missing hash output', 'R': R}); continue
            ref = byrank[0]
            for j, t in enumerate(ref):
                n += 1
                if kind in ('HI', 'HL'):
                    key, hsh, o_map, o_ds = t[0], int(t[1]), int(t[2]), int(t[3])
                    mine = [r for r in range(R) if byrank[r][j][4] == '1']
                    owners = {tuple(byrank[r][j][2:4]) for r in range(R)}
                    if mine != [o_map]:
                        fails.append({'what': 'is_mine true on ranks %s, owner is %d' % (mine, o_map), 'R': R, 'key': key})
                else:
                    hsh, o_map, o_ds = int(t[0]), int(t[1]), int(t[2])
                    owners = {tuple(byrank[r][j][1:3]) for r in range(R)}
                if len(owners) != 1:
                    fails.append({'what': 'owner computed differently on different ranks', 'R': R, 'entry': t})
                if not (0 <= o_map < R and 0 <= o_ds < R):
                    fails.append({'what': 'owner out of range', 'R': R, 'entry': t})
                if o_map != o_ds:
                    fails.append({'what': 'containers disagree on the owner of one key', 'R': R, 'entry': t})
                rows.append((hsh, R, o_map))
    # placement: every stored element sits on its owner, and exactly once across the communicator
    for R, lines in lines_by_R.items():
        seen = {}
        nkeys = None
        for l in lines:
            if l.startswith('HP ') and ':' in l:
                head, tail = l.split(':', 1)
                rk = int(head.split()[2])
                for t in tail.split():
                    cont, key, own = t.split(',')
                    n += 1
                    if int(own) != rk:
                        fails.append({'what': '%s: key %s is stored on rank %d, its owner is rank %s' % (cont, key, rk, own), 'R': R})
                    seen[(cont, key)] = seen.get((cont, key), 0) + 1
            elif l.startswith('HQ ') and ':' in l:
                vals = l.split(':', 1)[1].split()
                want = [sum(1 for (c, k) in seen if c == x) for x in ('mi', 'ms', 'ss', 'ds')]
                nkeys = vals
        dup = [k for k, v in seen.items() if v != 1]
        if dup:
            fails.append({'what': 'stored on %d ranks instead of one: %s' % (seen[dup[0]], dup[0]), 'R': R})
        if nkeys is not None:
            want = [sum(1 for (c, k) in seen if c == x) for x in ('mi', 'ms', 'ss', 'ds')]
            if [int(x) for x in nkeys[:4]] != want:
                fails.append({'what': 'size() of map<int> / map<string> / set<string> / disjoint_set is %s, distinct stored elements: %s' % (nkeys[:4], want), 'R': R})
    return n, fails, rows

def coq_hash_table(rows):
    text = '''From Coq Require Import ZArith List Bool. Import ListNotations.
From Ygm Require Import Gen.CArith Gen.Gen_hash.
Local Open Scope Z_scope.
Definition tab : list (Z * Z * Z) := [
%s].
Definition row_ok (row : Z * Z * Z) : bool := let '(h, R, o) := row in
  match hash_partition (Some h) (Some 0) (Some R) (Some 1024) with Some (r, _) => r =? o | None => false end.
Eval vm_compute in (length tab, find (fun r => negb (row_ok r)) tab).
''' % ';\n'.join('(%d, %d, %d)' % r for r in rows)
    rc, out = coq_eval('hash', text)
    m = re.search(r'=\s*\((\d+)%?\w*,\s*(None|Some\s*\(([^)]*)\))', out)
    if rc != 0 or not m:
        return 0, 'coqc failed on Tab_hash.v: ' + out[-1200:]
    if m.group(2) == 'None':
        return int(m.group(1)), None
    return int(m.group(1)), 'generated hash_partition disagrees with the real owner() at (hash, R, owner) = (%s)' % m.group(3)

# ---- bags -------------------------------------------------------------------

def parse_bag(lines_by_R):
    B, G = {}, {}
    for R, lines in lines_by_R.items():
        for l in lines:
            if l[:2] in ('B ', 'G ') and ':' in l:
                head, tail = l.split(':', 1)
                h = head.split()
                key = (int(h[1]), int(h[2]), int(h[3]), int(h[4]))   # R rank T placement
                if h[0] == 'B':
                    B[key] = (int(h[5]), int(h[6]), list(map(int, tail.split())))
                else:
                    G[key] = list(map(int, tail.split()))
    return B, G

def oracle_bag(B, G, maxT):
    fails, n, nontriv = [], 0, 0
    Rs = sorted({k[0] for k in B})
    for R in Rs:
        for T in range(maxT + 1):
            _, _, sizes, _ = blk(T, R)
            for pl in range(4):
                n += 1
                if T % R or T < R:
                    nontriv += 1
                try:
                    after = [B[(R, r, T, pl)][1] for r in range(R)]
                    before = [B[(R, r, T, pl)][0] for r in range(R)]
                    items = sorted(x for r in range(R) for x in B[(R, r, T, pl)][2])
                except KeyError:
                    fails.append({'what': 'no output for this case (rank crashed?)', 'R': R, 'T': T, 'placement': pl}); continue
                case = {'R': R, 'T': T, 'placement': pl, 'before': before, 'after': after}
                if sum(before) != T:
                    fails.append(dict(case, what='items lost or duplicated by insert'))
                if items != list(range(T)):
                    fails.append(dict(case, what='rebalance does not conserve the multiset of items'))
                if after != sizes:
                    fails.append(dict(case, what='per-rank counts after rebalance are not the block partition %s' % sizes))
                for r in range(R):
                    if G.get((R, r, T, pl)) != list(range(T)):
                        fails.append(dict(case, what='gather_to_vector() on rank %d is not the full multiset' % r)); break
                if len(fails) > 30:
                    return n, nontriv, fails
    return n, nontriv, fails

def coq_rebalance_table(B, maxT):
    """generated bag_rebalance_targets vs. the movement the real rebalance performed: for each rank the multiset of
    targets determines (sent_to[q]); we compare the resulting per-rank final counts."""
    rows = []
    for (R, r, T, pl), (before, after, _) in sorted(B.items()):
        if T > maxT or r != 0:
            continue
        bef = [B[(R, q, T, pl)][0] for q in range(R)]
        aft = [B[(R, q, T, pl)][1] for q in range(R)]
        rows.append('(%d, %d, [%s], [%s])' % (R, T, '; '.join(map(str, bef)), '; '.join(map(str, aft))))
    text = '''From Coq Require Import ZArith List Bool. Import ListNotations.
From Ygm Require Import Gen.CArith Gen.Gen_rebalance.
Local Open Scope Z_scope.
Definition tab : list (Z * Z * list Z * list Z) := [
%s].
Fixpoint prefixes (acc : Z) (l : list Z) : list (Z * Z) := match l with [] => [] | c :: t => (acc, c) :: prefixes (acc + c) t end.
Definition count (q : Z) (l : list Z) : Z := Z.of_nat (length (filter (Z.eqb q) l)).
Definition final_counts (R T : Z) (before : list Z) : option (list Z) :=
  let pc := prefixes 0 before in
  let sends := map (fun '(me, (pre, c)) => (me, c, bag_rebalance_targets {| bag_m_comm := {| comm_size := R; comm_rank := Z.of_nat me |} |} (Some T) (Some pre) (Some c)))
                   (combine (seq 0 (length before)) pc) in
  if forallb (fun '(_, _, o) => match o with Some _ => true | None => false end) sends then
    Some (map (fun q => fold_right Z.add 0 (map (fun '(me, c, o) => match o with Some l => (if Z.of_nat me =? Z.of_nat q then c - Z.of_nat (length l) else 0) + count (Z.of_nat q) l | None => 0 end) sends))
              (seq 0 (length before)))
  else None.
Fixpoint leqb (a b : list Z) := match a, b with [], [] => true | x :: a', y :: b' => (x =? y) && leqb a' b' | _, _ => false end.
Definition row_ok (row : Z * Z * list Z * list Z) := let '(R, T, bef, aft) := row in
  match final_counts R T bef with Some l => leqb l aft | None => false end.
Eval vm_compute in (length tab, match find (fun r => negb (row_ok r)) tab with None => None | Some (R, T, b, _) => Some (R, T, b) end).
''' % ';\n'.join(rows)
    rc, out = coq_eval('rebalance', text)
    m = re.search(r'=\s*\((\d+)%?\w*,\s*(None|Some\s*\((.*)\))\)', out, re.S)
    if rc != 0 or not m:
        return 0, 'coqc failed on Tab_rebalance.v: ' + out[-1200:]
    if m.group(2) == 'None':
        return int(m.group(1)), None
    return int(m.group(1)), 'generated bag_rebalance_targets disagrees with the real rebalance at (R, T, before) = (%s)' % re.sub(r'\s+', ' ', m.group(3))
