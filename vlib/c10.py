"""C10 — one owner per key/index; array blocks partition the range (DESIGN §5 C10)."""
from . import *
from . import partition as P

def run(tier, seed, replay=None):
    maxlen = 24 if tier == 'quick' else 60
    sizes = list(range(1, 8)) if tier == 'quick' else list(range(1, 13))
    state = {}
    def tie(res):
        lines, probs = P.run_mode('array', maxlen, sizes, seed)
        hl, hprobs = P.run_mode('hash', 0, sizes, seed)
        fails = list(probs) + list(hprobs)
        n = nt = nrows = 0
        msg = None
        samples = []
        if lines:
            A, F, V, I = P.parse_array(lines)
            state['A'] = A
            n, nt, f = P.oracle_array_partition(A, F, maxlen)
            fails += f
            if not fails:
                nrows, msg = P.coq_array_table(A, maxlen)
            k = (4, 1, 6)
            if k in A:
                samples.append({'R': 4, 'rank': 1, 'len': 6, 'small,large,start,local_size': A[k][0], 'owner(0..len-1)': A[k][1]})
        hn = 0
        if hl:
            hn, hf, rows = P.oracle_hash(hl)
            fails += hf
            if not hf and msg is None:
                hrows, msg = P.coq_hash_table(rows)
                nrows += hrows
            if rows:
                samples.append({'hash,R,owner': rows[len(rows) // 2]})
        # the specific observations (an owner out of range, a misplaced element) before the generic 'run ended with ...'
        fails.sort(key=lambda f: str(f.get('what', '')).startswith(('run ended', 'missing')))
        return {'ok': msg is None and not fails, 'msg': msg, 'failures': fails, 'validated': nrows,
                'evaluations': n + hn, 'nontrivial': nt, 'exhaustive': True,
                'rule': 'every (communicator size R in %s, array length 0..%d) on the real array under simmpi, all ranks; non-trivial: length not divisible by R or < R; plus owners of %d keys under map/set/disjoint_set on every rank' % (sizes, maxlen, hn),
                'samples': samples,
                'tie': 'T: Gen_array.v / Gen_hash.v regenerated from array.ipp / hash_partitioner.hpp; Gen_array_resize_correct, Gen_array_owner_correct, Gen_hash_owner_in_range re-proved; generated code evaluated in Coq on the values the real containers computed',
                'replay': 'simmpi/simrun -n R -- partition_enum array %d  (harness/partition_enum.cpp)' % maxlen}
    def search():
        lines, probs = P.run_mode('array', 80, list(range(1, 17)), seed + 100)
        if probs:
            return probs
        A, F, V, I = P.parse_array(lines)
        return P.oracle_array_partition(A, F, 80)[2]
    return run_check('C10', tier, seed, 'Properties_C10.v', ['Gen_array', 'Gen_hash'], tie, search,
                     trusted=['tools/cxx2coq.py + coq/Gen/CArith.v', 'simmpi (stub + coordinator) as the MPI under the enumeration harness',
                              'std::hash is a parameter of the generated hash_partition (its value is read from the real run)',
                              '"stored only on the owner" is the Dist refinement of C11-C13 (container handlers execute on owner(key)) and C01'],
                     assumptions=['len < 2^62, R < 2^31 (size_t / int arithmetic exact)'])
