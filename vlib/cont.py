"""Checks C11, C12, C15, C16, C20 (and the history part of C13, C14): DESIGN §5."""
from . import *
from . import containers as C

SPEC = {
    'C11': ('Properties_C11.v', 'map / multimap: per key and epoch, the state and the visitor-call tallies reached by the real container must be the outcome of some order of the operations issued (all orders enumerated in Coq with the extracted-free vm_compute evaluation of ContainerModel.cstep); size / count / all_gather / topk / for_all agree with the contents on every rank'),
    'C12': ('Properties_C12.v', 'set / multiset: per key and epoch, membership and conditional-callback tallies must be the outcome of some order (ContainerModel evaluated in Coq); size / count agree; a set never holds a key twice'),
    'C15': ('Properties_C15.v', 'counting_set: after every epoch the per-key counts equal the number of inserts issued so far (main and handler context, colliding cache slots, capacities 0/1 KB/16 MB); size, count_all, count, all_gather, topk, for_all agree'),
    'C16': ('Properties_C16.v', 'reducing adapter over a map and over an array: after every epoch each target equals the fold of all contributions (main and handler context, colliding slots, multi-node layouts with intermediate combining)'),
    'C20': ('Properties_C20.v', 'serialize then deserialize into pre-populated targets for map, multimap, set, multiset, bag, counting_set and a string map with characters needing escaping; operations issued just before serialize are in the image'),
}

def run(pid, tier, seed, replay=None):
    prop, what = SPEC[pid]
    def tie(res):
        t = C.evaluate(pid, seed, tier)
        t['tie'] = 'D: ' + what
        if pid in ('C15', 'C16'):
            # the executable cache model is replayed on the slot states of the real caches
            from . import cachetrace as CTR
            hs = C.gen_suite(seed, tier)
            runs = C.run_many(hs)
            ct = CTR.check(pid, hs, runs, tier[0])
            t['failures'] = t.get('failures', []) + ct['failures']
            if ct.get('msg') and not t.get('msg'):
                t['msg'] = ct['msg']; t['ok'] = False
            t['validated'] = t.get('validated', 0) + ct['validated']
            t.setdefault('extra', {})['cache_replay'] = ct['stats']
            t['tie'] += '; the slot touched by every cache operation of the real %s (main-context and handler-context, re-entrant ones attributed to the eviction send they happened in) is compared with Cache.contribute / contribute_inner evaluated by vm_compute on the same sequence' % ('counting_set' if pid == 'C15' else 'reducing adapter (single-node layouts)')
        if pid == 'C11':
            # swap and clear of map_impl: exercised through tagged_bag (a map with generated keys) against coq/Bag.v
            from . import bags as BG
            bg = BG.evaluate(seed, 64 if tier == 'quick' else 1500, tag=tier[0])
            t['failures'] = t.get('failures', []) + [f for f in bg.get('failures', []) if 'tagged' in f.get('what', '')]
            if bg.get('msg') and not t.get('msg'):
                t['msg'] = bg['msg']; t['ok'] = False
            t.setdefault('extra', {})['map_swap_clear_histories_via_tagged_bag'] = bg.get('stats', {})
            t['tie'] += '; map swap / clear / erase / visit_if_exists / all_gather through tagged_bag histories against coq/Bag.v (tstep evaluated by vm_compute)'
        return t
    def search():
        found = []
        for k in range(1, 4):
            t = C.evaluate(pid, seed + 100 * k, 'quick')
            found += t.get('failures', [])
            if found:
                break
        return found
    return run_check(pid, tier, seed, prop, [], tie, search,
                     trusted=['simmpi as the MPI under harness/containers.cpp; -fno-access-control to read the rank-local containers',
                              'coq/ContainerModel.v, Cache.v, Serialize.v are hand-written specifications / models tied by differential runs, not verified against the C++',
                              'exactly-once atomic execution of every operation on owner(key) before the barrier returns is C01, C02, C08, C10',
                              'std::hash, cereal (binary and JSON archives) are oracles'],
                     assumptions=['associative-commutative reduction operator (+) for C16', 'no embedded NUL in serialized strings (cereal/rapidjson)'])
