from . import core
def run(tier, seed, replay=None):
    return core.run('C07', tier, seed, replay)
