"""C19 — multi_output / daily_output write every line exactly once to the file of its subpath (DESIGN §5 C19)."""
import datetime, os, random, re, shutil
from . import *

WORDS = ['alpha', 'b', '', 'line with spaces', 'x' * 300, 'tab\tin', 'comma,semi;', 'z' * 5000, 'ünï', '0', 'q' * 17]

def one_case(rng, idx):
    ranks = rng.choice([1, 2, 3, 4, 6])
    mode = 'daily' if idx % 3 == 2 else 'multi'
    buflen = rng.choice([0, 1, 16, 16, 1024 * 1024])
    append = rng.random() < 0.5
    d = os.path.join(BUILD, 'io', 'c19-%d-%d' % (os.getpid(), idx))
    shutil.rmtree(d, ignore_errors=True)
    os.makedirs(d)
    try:
        prefix = os.path.join(d, 'out', 'pre')
        subs = ['a', 'b.txt', 'dir/c', 'dir/sub/deep/d', 'e/e', 'f']
        tss = [0, 86399, 86400, 951782400, 951868799, 951868800, 1709164800, 1709251199, 1709251200, 1735689599, 1735689600, 2145916800, 1234567890]
        ops, expect = [], {}
        for k in range(rng.choice([5, 40, 200])):
            r = rng.randrange(ranks)
            text = '%d:%s:%d' % (idx, rng.choice(WORDS), k) if k % 4 else '%d:%d:%s' % (idx, k, rng.choice(WORDS))
            if mode == 'multi':
                sub = rng.choice(subs)
                ops.append('w %d %s %s' % (r, sub, text))
            else:
                ts = rng.choice(tss)
                t = datetime.datetime.fromtimestamp(ts, datetime.timezone.utc)
                sub = '%d/%d/%d' % (t.year, t.month, t.day)
                ops.append('d %d %d %s' % (r, ts, text))
            expect.setdefault(sub, []).append(text)
        hist = os.path.join(d, 'hist.txt')
        with open(hist, 'w') as fh:
            fh.write('\n'.join(ops) + '\n')
        # pre-existing content for some files
        previous = {}
        os.makedirs(os.path.join(d, 'out', 'pre'), exist_ok=True)
        for sub in list(expect)[:2] + ['untouched/file']:
            p = os.path.join(d, 'out', 'pre', sub)
            os.makedirs(os.path.dirname(p), exist_ok=True)
            previous[sub] = 'old content of %s\nsecond old line\n' % sub
            with open(p, 'w') as fh:
                fh.write(previous[sub])
        exe, err = compile_sim('io', ['harness/io.cpp'])
        if exe is None:
            return {'fails': [{'what': 'io harness does not compile against the current headers', 'log': err[-1500:]}]}
        r = simrun(exe, ranks, [mode, prefix, hist, buflen, int(append)], ppn=rng.choice([1, ranks]), seed=idx + 1, policy=['uniform', 'late', 'early', 'starve'][idx % 4],
                   wall=60, env={'YGM_COMM_BUFFER_SIZE_KB': rng.choice([0, 1, 16384])})
        case = {'mode': mode, 'ranks': ranks, 'buffer_length': buflen, 'append': append, 'writes': len(ops), 'subpaths': sorted(expect)}
        if r['verdict'] != 'ok':
            return {'fails': [dict(case, what='run ended with %s %s' % (r['verdict'], r['detail']), cmd=r['cmd'], history=ops[:50])], 'case': case}
        fails = []
        if mode == 'multi':
            seen = [int(l.split()[1]) for l in r['out'] if l.startswith('AFTERDTOR ')]
            want = sum(len(v) + (2 if append and sub in previous else 0) for sub, v in expect.items())
            if not seen:
                fails.append(dict(case, what='io harness printed no AFTERDTOR line'))
            elif seen[0] != want:
                fails.append(dict(case, what='rank 0 read the files as soon as the destructor of multi_output had returned there: %d of %d lines are in the files (other ranks had not written theirs yet)' % (seen[0], want), cmd=r['cmd']))
        root = os.path.join(d, 'out', 'pre')
        found = {}
        for dp, dn, fn in os.walk(root):
            for f in fn:
                p = os.path.join(dp, f)
                found[os.path.relpath(p, root)] = open(p, 'rb').read().decode('utf-8', 'replace')
        for sub, lines in expect.items():
            content = found.get(sub)
            if content is None:
                fails.append(dict(case, what='no file for subpath %s (%d lines written)' % (sub, len(lines)))); continue
            prev = previous.get(sub, '') if append else ''
            if not content.startswith(prev):
                fails.append(dict(case, what='append=%s: previous content of %s was not %s' % (append, sub, 'preserved ahead of the new lines' if append else 'replaced'))); continue
            body = content[len(prev):]
            got = body.split('\n')
            if got and got[-1] == '':
                got.pop()
            elif body:
                fails.append(dict(case, what='file %s does not end with a newline' % sub))
            if sorted(got) != sorted(lines):
                from collections import Counter
                cg, ce = Counter(got), Counter(lines)
                fails.append(dict(case, what='file %s holds %d lines, %d were written; missing %s, extra/damaged %s' % (
                    sub, len(got), len(lines), [x[:40] for x in list((ce - cg).elements())[:3]], [x[:40] for x in list((cg - ce).elements())[:3]])))
            if not append and previous.get(sub) and previous[sub].split('\n')[0] in content:
                fails.append(dict(case, what='append off: previous content of %s is still there' % sub))
        for sub, content in found.items():
            if sub not in expect and content != previous.get(sub, None):
                fails.append(dict(case, what='unexpected or modified file %s' % sub))
        return {'fails': fails, 'case': case}
    finally:
        shutil.rmtree(d, ignore_errors=True)

FD_SIGNATURE = 'more subpaths on one rank than the process may keep open'

def fd_case():
    """K3: every subpath a rank owns stays open until the object is destroyed; beyond the process's open-file limit the
    streams fail to open and their lines are dropped without any report."""
    d = os.path.join(BUILD, 'io', 'c19-fd-%d' % os.getpid())
    shutil.rmtree(d, ignore_errors=True)
    os.makedirs(os.path.join(d, 'out'))
    try:
        exe, err = compile_sim('io', ['harness/io.cpp'])
        if exe is None:
            return []
        nsub, room = 40, 16
        ops = ['w 0 s%02d line-%d' % (k, k) for k in range(nsub)]
        hist = os.path.join(d, 'hist.txt')
        open(hist, 'w').write('\n'.join(ops) + '\n')
        r = simrun(exe, 1, ['multi', os.path.join(d, 'out', 'pre'), hist, 16, 0, room], seed=1, wall=60)
        have = sum(1 for k in range(nsub) if os.path.exists(os.path.join(d, 'out', 'pre', 's%02d' % k)) and
                   open(os.path.join(d, 'out', 'pre', 's%02d' % k)).read() == 'line-%d\n' % k)
        if r['verdict'] != 'ok' or have != nsub:
            return [{'what': '%s: 1 rank, %d subpaths with one line each, open-file limit = files already open + %d: %d of %d files hold their line%s' % (
                FD_SIGNATURE, nsub, room, have, nsub, '' if r['verdict'] == 'ok' else ' (run ended with %s)' % r['verdict']), 'cmd': r['cmd']}]
        return []
    finally:
        shutil.rmtree(d, ignore_errors=True)

def many_case():
    """More than a thousand subpaths on one owner rank, each written in two passes (append off): every file holds both lines."""
    d = os.path.join(BUILD, 'io', 'c19-many-%d' % os.getpid())
    shutil.rmtree(d, ignore_errors=True)
    os.makedirs(os.path.join(d, 'out'))
    try:
        exe, err = compile_sim('io', ['harness/io.cpp'])
        if exe is None:
            return []
        nsub = 1100
        ops = ['w 0 m/%04d first-%d' % (k, k) for k in range(nsub)] + ['w 0 m/%04d second-%d' % (k, k) for k in range(nsub)]
        hist = os.path.join(d, 'hist.txt')
        open(hist, 'w').write('\n'.join(ops) + '\n')
        r = simrun(exe, 1, ['multi', os.path.join(d, 'out', 'pre'), hist, 64, 0], seed=1, wall=120)
        bad = []
        for k in range(nsub):
            p = os.path.join(d, 'out', 'pre', 'm', '%04d' % k)
            got = sorted(open(p).read().split('\n')[:-1]) if os.path.exists(p) else None
            if got != sorted(['first-%d' % k, 'second-%d' % k]):
                bad.append((k, got))
        if r['verdict'] != 'ok' or bad:
            return [{'what': '%d subpaths on one rank, each written twice (two passes, append off): %d files do not hold exactly their two lines%s; first: subpath m/%04d holds %s' % (
                nsub, len(bad), '' if r['verdict'] == 'ok' else ' (run ended with %s)' % r['verdict'], bad[0][0] if bad else 0, bad[0][1] if bad else None), 'cmd': r['cmd']}]
        return []
    finally:
        shutil.rmtree(d, ignore_errors=True)

def run(tier, seed, replay=None):
    def explore(seed_, count):
        rng = random.Random(seed_ * 7907 + 3)
        import concurrent.futures
        cases = [(random.Random(rng.randrange(1 << 30)), i) for i in range(count)]
        with concurrent.futures.ThreadPoolExecutor(max_workers=NCPU) as ex:
            return list(ex.map(lambda a: one_case(*a), cases))
    def tie(res):
        results = explore(seed, 36 if tier == 'quick' else 600)
        fails = [f for r in results for f in r.get('fails', [])]
        known = []
        fails += many_case()
        for f in fd_case():
            k = [x for x in load_known() if x.get('status') == 'known' and x.get('property') == 'C19' and x.get('signature') and x['signature'] in f['what']]
            if k:
                known.append(k[0]['what'])
            else:
                fails.append(f)
        return {'ok': True, 'msg': None, 'failures': fails, 'known': known, 'validated': len(results), 'evaluations': len(results),
                'nontrivial': sum(1 for r in results if r.get('case', {}).get('writes', 0) > 5),
                'rule': 'generated write histories (many subpaths incl. nested directories, lines longer than the buffer, empty lines, buffer lengths 0/1/16/1 MB, append on/off over pre-existing content, 1-6 ranks, capacities 0/1 KB/16 MB); daily_output with timestamps on day/month/year/leap-day boundaries compared with Python\'s UTC calendar; non-trivial: more than 5 writes',
                'samples': [r['case'] for r in results[:2] if 'case' in r],
                'tie': 'D: the directory tree written by the real multi_output / daily_output is read back: per subpath the lines equal the written lines (as a multiset: writes from different ranks execute in schedule order), each intact on its own line, previous content replaced or preserved'}
    def search():
        return [f for r in explore(seed + 9, 60) for f in r.get('fails', [])]
    return run_check('C19', tier, seed, 'Properties_C19.v', [], tie, search,
                     trusted=['coq/MultiOutput.v is a hand-written model of buffered_ofstream (buffer_output / flush_buffer / open mode), tied by differential runs',
                              'std::ofstream, std::filesystem and libc gmtime are oracles (gmtime is compared with Python\'s calendar on boundary timestamps)',
                              'one owner per subpath and serialised writes are C10, C01, C08', 'simmpi; harness/io.cpp'],
                     assumptions=['lines contain no newline character', 'nobody else writes to the output directory'])
