from . import cont
def run(tier, seed, replay=None):
    return cont.run('C16', tier, seed, replay)
