from . import core
def run(tier, seed, replay=None):
    return core.run('C01', tier, seed, replay)
