"""Scenario generation, execution under simmpi and the direct oracles for the protocol core
(C01, C02, C03, C05, C07, C08).  DESIGN.md §3.3, §3.4, §5."""
import concurrent.futures, hashlib, json, os, random, re, shutil
from . import *

RUNS = os.path.join(BUILD, 'runs')
os.makedirs(RUNS, exist_ok=True)

LAYOUTS = [(1, 1), (2, 1), (2, 2), (4, 4), (4, 2), (4, 1), (6, 3), (6, 2), (12, 4), (12, 3), (7, 1), (10, 2), (3, 3), (8, 2), (9, 3), (8, 4)]
ROUTINGS = ['NONE', 'NR', 'NLNR']
POLICIES = ['uniform', 'late', 'early', 'delayreduce', 'starve']

def harness():
    return compile_sim('traffic', ['harness/traffic.cpp'])

# ---------------------------------------------------------------------------
# scenarios

class Scenario:
    def __init__(self, n, ppn, routing, bufkb, nirecv=8, irecvkb=4096, nisw=4, freq=8, eager=4096, policy='uniform', seed=1, kind='mixed'):
        self.n, self.ppn, self.routing, self.bufkb = n, ppn, routing, bufkb
        self.nirecv, self.irecvkb, self.nisw, self.freq, self.eager = nirecv, irecvkb, nisw, freq, eager
        self.policy, self.seed, self.kind = policy, seed, kind
        self.main = {r: [] for r in range(n)}     # list of act token lists
        self.msg = {}                              # uid -> acts
        self.cb = {}
        self.meta = {}                             # uid -> dict(kind, dests, len, parent, epoch, origin)
        self.nbar = 0
        self.flags = 0
        self.cyclic = False                        # ranks placed on the nodes round-robin instead of in blocks
        self.placement = None                      # or: explicit node label per rank (any uniform placement)

    def cap(self):
        return self.bufkb * 1024

    def text(self):
        out = ['# kind=%s n=%d ppn=%d routing=%s bufkb=%d nirecv=%d irecvkb=%d nisw=%d freq=%d eager=%d policy=%s seed=%d' % (
            self.kind, self.n, self.ppn, self.routing, self.bufkb, self.nirecv, self.irecvkb, self.nisw, self.freq, self.eager, self.policy, self.seed)
               + (' placement=round-robin' if self.cyclic else '') + (' placement=' + ','.join(map(str, self.placement)) if self.placement else '')]
        for r in range(self.n):
            out.append('main %d : %s' % (r, ' '.join(' '.join(map(str, a)) for a in self.main[r])))
        for u, acts in sorted(self.msg.items()):
            if acts:
                out.append('msg %d : %s' % (u, ' '.join(' '.join(map(str, a)) for a in acts)))
        for c, acts in sorted(self.cb.items()):
            out.append('cb %d : %s' % (c, ' '.join(' '.join(map(str, a)) for a in acts)))
        return '\n'.join(out) + '\n'

    def env(self):
        return {'YGM_COMM_ROUTING': self.routing, 'YGM_COMM_BUFFER_SIZE_KB': self.bufkb, 'YGM_COMM_NUM_IRECVS': self.nirecv,
                'YGM_COMM_IRECV_SIZE_KB': self.irecvkb, 'YGM_COMM_NUM_ISENDS_WAIT': self.nisw, 'YGM_COMM_ISSEND_FREQ': self.freq}

    def key(self):
        return hashlib.sha256((self.text()).encode()).hexdigest()[:16]

def msg_sizes(rng, cap):
    base = [0, 1, 7, 40, 200]
    if cap > 0:
        base += [max(cap - 30, 0), cap, cap + 1, 3 * cap]
    else:
        base += [600, 3000]
    return base

def gen_mixed(rng, idx, tier):
    n, ppn = LAYOUTS[idx % len(LAYOUTS)] if idx < 2 * len(LAYOUTS) else rng.choice(LAYOUTS)
    routing = ROUTINGS[(idx // len(LAYOUTS)) % 3] if idx < 3 * len(LAYOUTS) else rng.choice(ROUTINGS)
    bufkb = rng.choice([0, 1, 1, 2, 16384])
    s = Scenario(n, ppn, routing, bufkb, nirecv=rng.choice([1, 2, 8]), nisw=rng.choice([0, 4]), freq=rng.choice([0, 1, 8]),
                 eager=rng.choice([0, 4096, 1 << 20]), policy=rng.choice(POLICIES), seed=rng.randrange(1, 1 << 30), kind='mixed')
    sizes = msg_sizes(rng, min(s.cap(), 4096))
    uid = [100]
    def new_uid():
        uid[0] += 1
        return uid[0]
    def gen_handler(u, depth, epoch):
        acts = []
        if depth < 4 and rng.random() < 0.55:
            for _ in range(rng.choice([1, 1, 2])):
                c = new_uid()
                d = rng.randrange(n)
                ln = rng.choice(sizes)
                acts.append(['A', d, c, ln])
                s.meta[c] = dict(kind='A', dests=[d], len=ln, parent=u, epoch=epoch)
                s.msg[c] = gen_handler(c, depth + 1, epoch)
        if rng.random() < 0.15:
            acts.insert(rng.randrange(len(acts) + 1), ['LP'])
        if rng.random() < 0.15:
            acts.insert(rng.randrange(len(acts) + 1), ['MUT'])
        if depth < 2 and rng.random() < 0.08:
            c = new_uid()
            ln = rng.choice([0, 5, 100])
            acts.append(['B', c, ln])
            s.meta[c] = dict(kind='B', dests=list(range(n)), len=ln, parent=u, epoch=epoch)
            s.msg[c] = [['MUT']] if rng.random() < 0.5 else []
        if depth < 2 and rng.random() < 0.08:
            c = new_uid()
            acts.append(['AR', rng.randrange(n), c])
            s.meta[c] = dict(kind='AR', dests=[acts[-1][1]], len=0, parent=u, epoch=epoch)
            s.msg[c] = []
        return acts
    epochs = rng.choice([1, 2, 2, 3])
    s.nbar = epochs
    for e in range(1, epochs + 2):     # the last epoch ends in the destructor
        waits = {}
        for r in range(n):
            prog = s.main[r]
            nops = rng.choice([0, 1, 2, 3, 5, 8]) if n > 1 else rng.choice([1, 3, 6])
            masked = False
            for _ in range(nops):
                x = rng.random()
                if x < 0.6:
                    u = new_uid()
                    d = rng.randrange(n)
                    ln = rng.choice(sizes)
                    prog.append(['A', d, u, ln])
                    s.meta[u] = dict(kind='A', dests=[d], len=ln, parent=-1, epoch=e, origin=r)
                    s.msg[u] = gen_handler(u, 1, e)
                elif x < 0.68:
                    u = new_uid()
                    ln = rng.choice([0, 3, 64, 1500])
                    prog.append(['B', u, ln])
                    s.meta[u] = dict(kind='B', dests=list(range(n)), len=ln, parent=-1, epoch=e, origin=r)
                    s.msg[u] = [['MUT']] if rng.random() < 0.3 else []
                elif x < 0.74:
                    u = new_uid()
                    k = rng.choice([1, 2, 3, 4])
                    ds = [rng.randrange(n) for _ in range(k)]
                    ln = rng.choice([0, 9, 300])
                    prog.append(['M', k] + ds + [u, ln])
                    s.meta[u] = dict(kind='M', dests=ds, len=ln, parent=-1, epoch=e, origin=r)
                    s.msg[u] = []
                elif x < 0.80:
                    prog.append(['LP'])
                elif x < 0.86 and not masked:
                    prog.append(['MON'])
                    masked = True
                elif x < 0.90:
                    u = new_uid()
                    d = rng.randrange(n)
                    prog.append(['AR', d, u])
                    s.meta[u] = dict(kind='AR', dests=[d], len=0, parent=-1, epoch=e, origin=r)
                    s.msg[u] = []
                elif x < 0.94:
                    u = new_uid()
                    d = rng.randrange(n)
                    st = rng.randrange(1, 1 << 40)
                    ln = rng.choice([0, 17])
                    prog.append(['F', d, u, ln, st])
                    s.meta[u] = dict(kind='F', dests=[d], len=ln, parent=-1, epoch=e, origin=r, state=st)
                    s.msg[u] = []
                elif x < 0.97 and not masked:
                    cid = len(s.cb) + 1 + 100 * r
                    body = []
                    if rng.random() < 0.7:
                        u = new_uid()
                        d = rng.randrange(n)
                        body.append(['A', d, u, rng.choice([0, 10])])
                        s.meta[u] = dict(kind='A', dests=[d], len=body[-1][3], parent=-2 - cid, epoch=e, origin=r)
                        s.msg[u] = gen_handler(u, 2, e)
                    s.cb[cid] = body
                    if rng.random() < 0.5:
                        # a callback that registers another callback while the barrier is draining the list
                        cid2 = cid + 1
                        body2 = []
                        u = new_uid()
                        d = rng.randrange(n)
                        body2.append(['A', d, u, rng.choice([0, 10])])
                        s.meta[u] = dict(kind='A', dests=[d], len=body2[-1][3], parent=-2 - cid2, epoch=e, origin=r)
                        s.msg[u] = []
                        s.cb[cid2] = body2
                        body.append(['CB', cid2])
                    prog.append(['CB', cid])
                elif masked:
                    prog.append(['MOFF'])
                    masked = False
            if masked:
                prog.append(['MOFF'])
        # one wait-until pair per epoch, sometimes
        if n > 1 and rng.random() < 0.25:
            a, b = rng.sample(range(n), 2)
            f = s.flags = s.flags + 1
            u = new_uid()
            s.main[b].append(['A', a, u, 3])
            s.meta[u] = dict(kind='A', dests=[a], len=3, parent=-1, epoch=e, origin=b)
            s.msg[u] = [['SF', f]]
            s.main[a].append(['WU', f])
        if e <= epochs:
            for r in range(n):
                s.main[r].append(['BAR'])
    return s

def gen_aggregate(rng, idx):
    """C07(a): a batch that fits travels as one physical send, at the flush point."""
    n, ppn = rng.choice([(2, 2), (4, 2), (4, 4), (6, 3), (3, 1)])
    routing = rng.choice(ROUTINGS)
    bufkb = rng.choice([1, 2, 4])
    s = Scenario(n, ppn, routing, bufkb, policy=rng.choice(POLICIES), seed=rng.randrange(1, 1 << 30), kind='aggregate', freq=rng.choice([0, 1, 8]))
    hdr = 0 if routing == 'NONE' else 8
    cap = s.cap()
    d = rng.randrange(1, n) if n > 1 else 0
    total, u = 0, 100
    slack = rng.choice([0, 0, 1, 5, 200])        # wire bytes left below the capacity
    while True:
        ln = rng.choice([0, 1, 10, 60, 200])
        wire = hdr + 2 + 8 + 8 + ln
        if total + wire > cap - slack:
            # fill exactly when slack == 0
            rest = cap - slack - total - (hdr + 2 + 8 + 8)
            if rest >= 0:
                u += 1
                s.main[0].append(['A', d, u, rest]); s.meta[u] = dict(kind='A', dests=[d], len=rest, parent=-1, epoch=1, origin=0); s.msg[u] = []
                total += hdr + 18 + rest
            break
        u += 1
        s.main[0].append(['A', d, u, ln]); s.meta[u] = dict(kind='A', dests=[d], len=ln, parent=-1, epoch=1, origin=0); s.msg[u] = []
        total += wire
    s.meta['batch'] = dict(sender=0, dest=d, wire=total)
    for r in range(n):
        s.main[r].append(['BAR'])
    s.nbar = 1
    return s

def gen_stream(rng, idx):
    """C07(b,c): one rank streams point-to-point asyncs from its main program; nobody else sends."""
    n = rng.choice([2, 3, 4, 5])
    bufkb = rng.choice([0, 1, 2, 4])
    s = Scenario(n, n, 'NONE', bufkb, policy=rng.choice(['late', 'late', 'uniform', 'starve']), seed=rng.randrange(1, 1 << 30), kind='stream',
                 nisw=rng.choice([0, 4, 64]), freq=rng.choice([0, 1, 8]), eager=rng.choice([0, 4096]), nirecv=rng.choice([1, 8]))
    cap = s.cap()
    sizes = [0, 10, 100, 500, max(cap - 40, 1), cap + 10, 2 * cap + 100]
    maxlen = 0
    u = 100
    for _ in range(rng.choice([30, 60, 120])):
        u += 1
        d = rng.randrange(1, n)
        ln = rng.choice(sizes)
        maxlen = max(maxlen, ln)
        s.main[0].append(['A', d, u, ln]); s.meta[u] = dict(kind='A', dests=[d], len=ln, parent=-1, epoch=1, origin=0); s.msg[u] = []
    s.meta['stream'] = dict(sender=0, maxwire=maxlen + 18)
    for r in range(n):
        s.main[r].append(['BAR'])
    s.nbar = 1
    return s

def gen_handler_storm(rng, idx):
    """C08 / C03: handlers that send far more than the capacity, delivered in every context."""
    n, ppn = rng.choice([(2, 2), (2, 1), (4, 2), (3, 3), (6, 2)])
    s = Scenario(n, ppn, rng.choice(ROUTINGS), rng.choice([0, 1]), policy=rng.choice(POLICIES), seed=rng.randrange(1, 1 << 30), kind='storm',
                 nirecv=rng.choice([1, 2, 8]), nisw=rng.choice([0, 4]), freq=rng.choice([0, 1, 8]), eager=rng.choice([0, 4096]))
    u = 100
    ctx = rng.choice(['barrier', 'backpressure', 'progress'])
    for r in range(n):
        # a few fat messages whose handlers each send many more
        for _ in range(rng.choice([1, 2, 3])):
            u += 1
            d = rng.randrange(n)
            acts = []
            for _ in range(rng.choice([3, 8, 15])):
                c = u * 1000 + len(acts) + 1
                dd = rng.randrange(n)
                ln = rng.choice([10, 600, 1500])
                acts.append(['A', dd, c, ln])
                s.meta[c] = dict(kind='A', dests=[dd], len=ln, parent=u, epoch=1)
                s.msg[c] = [['MUT']] if rng.random() < 0.3 else []
                if rng.random() < 0.2:
                    acts.append(['LP'])
                if rng.random() < 0.15:
                    c2 = c + 500
                    acts.append(['AR', rng.randrange(n), c2])
                    s.meta[c2] = dict(kind='AR', dests=[acts[-1][1]], len=0, parent=u, epoch=1)
                    s.msg[c2] = []
            ln = rng.choice([0, 2000, 5000])
            s.main[r].append(['A', d, u, ln]); s.meta[u] = dict(kind='A', dests=[d], len=ln, parent=-1, epoch=1, origin=r); s.msg[u] = acts
        if ctx == 'backpressure':
            for _ in range(rng.choice([5, 20])):
                u += 1
                d = rng.randrange(n)
                s.main[r].append(['A', d, u, 1200]); s.meta[u] = dict(kind='A', dests=[d], len=1200, parent=-1, epoch=1, origin=r); s.msg[u] = []
        elif ctx == 'progress':
            s.main[r] += [['LP']] * rng.choice([3, 10])
    for r in range(n):
        s.main[r].append(['BAR'])
    s.nbar = 1
    return s

def gen_masked(rng, idx):
    """C08: heavy traffic issued and received during (possibly nested) masked sections."""
    n, ppn = rng.choice([(2, 2), (4, 2), (3, 1), (4, 4)])
    s = Scenario(n, ppn, rng.choice(ROUTINGS), rng.choice([0, 1, 2]), policy=rng.choice(POLICIES), seed=rng.randrange(1, 1 << 30), kind='masked',
                 nirecv=rng.choice([1, 8]), nisw=rng.choice([0, 4]), eager=rng.choice([0, 4096]))
    u = 100
    for r in range(n):
        pre = rng.choice([0, 3])
        for _ in range(pre):
            u += 1; d = rng.randrange(n)
            s.main[r].append(['A', d, u, 800]); s.meta[u] = dict(kind='A', dests=[d], len=800, parent=-1, epoch=1, origin=r); s.msg[u] = []
        if r % 2 == 0 or rng.random() < 0.5:
            nest = rng.choice([1, 2, 3])
            s.main[r] += [['MON']] * nest
            for k in range(rng.choice([5, 20, 40])):
                u += 1; d = rng.randrange(n)
                s.main[r].append(['A', d, u, rng.choice([0, 300, 1500])]); s.meta[u] = dict(kind='A', dests=[d], len=s.main[r][-1][3], parent=-1, epoch=1, origin=r); s.msg[u] = []
                if nest > 1 and k == 3:
                    s.main[r].append(['MOFF']); nest -= 1      # inner mask released, outer still held
                if rng.random() < 0.1:
                    s.main[r].append(['LP'])
            s.main[r] += [['MOFF']] * nest
    for r in range(n):
        s.main[r].append(['BAR'])
    s.nbar = 1
    return s

def gen_collective(rng, idx):
    """K1 (known finding): a rank sits in a blocking collective, which does not service receives, while a peer's
    asyncs wait for back-pressure on rendezvous sends that nobody will receive."""
    s = Scenario(2, 2, 'NONE', 1, nirecv=1, nisw=0, freq=0, eager=0, policy='uniform', seed=7 + idx, kind='collective')
    u = 100
    for _ in range(6):
        u += 1
        s.main[0].append(['A', 1, u, 100000]); s.meta[u] = dict(kind='A', dests=[1], len=100000, parent=-1, epoch=1, origin=0); s.msg[u] = []
    s.main[0].append(['COLL'])
    s.main[1].append(['COLL'])
    for r in range(2):
        s.main[r].append(['BAR'])
    s.nbar = 1
    return s

def gen_amplify(rng, idx):
    """C03: the remote-lookup pattern.  One received buffer holds many small requests whose handlers each answer with a
    larger reply; the receive size is 64 x the capacity, as in the default configuration (16 MB / 1 GB), scaled down."""
    n, ppn = rng.choice([(2, 2), (2, 1), (4, 2), (3, 3)])
    bufkb = 1
    s = Scenario(n, ppn, rng.choice(ROUTINGS), bufkb, irecvkb=64 * bufkb, policy=rng.choice(POLICIES), seed=rng.randrange(1, 1 << 30), kind='amplify',
                 nirecv=rng.choice([2, 8]), nisw=rng.choice([0, 4]), freq=rng.choice([0, 8]), eager=rng.choice([0, 4096]))
    u = 100
    src = rng.randrange(n)
    dst = (src + 1 + rng.randrange(n - 1)) % n
    nreq = rng.choice([40, 60])                    # 40 requests of ~20 bytes fit one 1 KB buffer
    rlen = rng.choice([1800, 2500])                # 40 x 1800 = 72 KB of replies > 64 KB receive size
    for i in range(nreq):
        u += 1
        c = u * 1000 + 1
        s.main[src].append(['A', dst, u, 0]); s.meta[u] = dict(kind='A', dests=[dst], len=0, parent=-1, epoch=1, origin=src)
        s.msg[u] = [['A', src, c, rlen]]
        s.meta[c] = dict(kind='A', dests=[src], len=rlen, parent=u, epoch=1); s.msg[c] = []
    for r in range(n):
        s.main[r].append(['BAR'])
    s.nbar = 1
    return s

def gen_cyclic(rng, idx):
    """C05 / C01: ranks placed on the nodes round-robin (mpirun --map-by node): rank r is on node r mod nodes.  Broadcasts
    from every origin (also from handlers) mixed with point-to-point traffic, more nodes than ranks per node included."""
    nodes, ppn = [(3, 2), (5, 2), (4, 3), (2, 3), (3, 1), (7, 2), (4, 2), (2, 2)][idx % 8]
    n = nodes * ppn
    s = Scenario(n, ppn, ROUTINGS[(idx // 8) % 3] if idx < 24 else rng.choice(ROUTINGS), rng.choice([0, 1, 16384]), policy=rng.choice(POLICIES),
                 seed=rng.randrange(1, 1 << 30), kind='cyclic', nirecv=rng.choice([2, 8]), nisw=rng.choice([0, 4]), freq=rng.choice([0, 8]),
                 eager=rng.choice([0, 4096]))
    s.cyclic = True
    irregular = {(3, 2): [0, 1, 1, 2, 0, 2], (4, 2): [0, 1, 2, 3, 3, 2, 1, 0], (2, 3): [1, 0, 0, 1, 1, 0], (4, 3): [0, 1, 2, 3, 3, 2, 1, 0, 0, 1, 2, 3]}
    if (idx // 8) % 2 == 1 and (nodes, ppn) in irregular:
        # an irregular uniform placement: the nodes come in a different order for each on-node index
        s.cyclic, s.placement = False, irregular[(nodes, ppn)]
    u = 100
    for r in range(n):
        if n <= 8 or rng.random() < 0.6:
            u += 1
            ln = rng.choice([0, 5, 100])
            s.main[r].append(['B', u, ln]); s.meta[u] = dict(kind='B', dests=list(range(n)), len=ln, parent=-1, epoch=1, origin=r); s.msg[u] = []
        for _ in range(rng.choice([0, 1, 3])):
            u += 1
            d = rng.randrange(n)
            ln = rng.choice([0, 40, 600])
            acts = []
            if rng.random() < 0.25:        # a broadcast issued by a handler
                c = u * 1000 + 1
                acts.append(['B', c, 3]); s.meta[c] = dict(kind='B', dests=list(range(n)), len=3, parent=u, epoch=1); s.msg[c] = []
            s.main[r].append(['A', d, u, ln]); s.meta[u] = dict(kind='A', dests=[d], len=ln, parent=-1, epoch=1, origin=r); s.msg[u] = acts
    for r in range(n):
        s.main[r].append(['BAR'])
    s.nbar = 1
    return s

GENERATORS = {'cyclic': gen_cyclic, 'amplify': gen_amplify, 'collective': gen_collective, 'mixed': gen_mixed, 'aggregate': gen_aggregate, 'stream': gen_stream, 'storm': gen_handler_storm, 'masked': gen_masked}

def expected_execs(s):
    """uid -> list of ranks on which the handler must run (with multiplicity)."""
    exp = {}
    for u, m in s.meta.items():
        if isinstance(u, int):
            exp[u] = sorted(m['dests'])
    return exp

# ---------------------------------------------------------------------------
# running

def run_scenario(s, keep_logs=False, glog=False):
    exe, err = harness()
    if exe is None:
        return {'verdict': 'build', 'detail': err[-1500:], 'events': {}, 'scenario': s.text()}
    key = hashlib.sha256((os.path.basename(exe) + s.text() + str(glog)).encode()).hexdigest()[:20]
    cache = os.path.join(RUNS, key + '.json')
    if os.path.exists(cache):
        try:
            return json.load(open(cache))
        except Exception:
            pass
    d = os.path.join(RUNS, key)
    os.makedirs(d, exist_ok=True)
    scn = os.path.join(d, 'scenario.scn')
    with open(scn, 'w') as fh:
        fh.write(s.text())
    r = simrun(exe, s.n, [scn], ppn=s.ppn, cyclic=s.cyclic, placement=s.placement, seed=s.seed, policy=s.policy, env=s.env(), eager=s.eager, logdir=d,
               glog=os.path.join(d, 'glog') if glog else None, wall=40, spin=300000)
    notes = []
    for rk in range(s.n):
        p = os.path.join(d, 'rank%d.log' % rk)
        if not os.path.exists(p):
            continue
        for line in open(p, errors='replace'):
            if line.startswith('N '):
                parts = line.split(' ', 3)
                a, b = parts[1].split('.')
                notes.append((int(a), rk, int(b), parts[2], parts[3].strip() if len(parts) > 3 else ''))
            elif line.startswith('MISUSE') or line.startswith('DIE'):
                notes.append((1 << 60, rk, 0, 'STUB', line.strip()))
    notes.sort()
    posts = []
    if glog and os.path.exists(os.path.join(d, 'glog')):
        for line in open(os.path.join(d, 'glog')):
            m = re.match(r'(\d+) (POST|SENDDONE) sid=(\d+) src=(\d+)(?: dst=(\d+) comm=(\d+))? len=(\d+)', line)
            if m:
                posts.append((int(m.group(1)), m.group(2), int(m.group(3)), int(m.group(4)), int(m.group(5) or -1), int(m.group(6) or -1), int(m.group(7))))
    out = {'verdict': r['verdict'], 'detail': r['detail'], 'stats': r['stats'], 'notes': notes, 'posts': posts,
           'states': [l for l in r['out'] if l.startswith(('STATE', 'EXIT', 'UNMATCHED'))][:40],
           'scenario': s.text(), 'cmd': r['cmd'], 'stderr': [l for l in r['out'] if l and not l.startswith(('STATE', 'EXIT', 'UNMATCHED'))][:10]}
    if not keep_logs:
        shutil.rmtree(d, ignore_errors=True)
    with open(cache + '.tmp', 'w') as fh:
        json.dump(out, fh)
    os.rename(cache + '.tmp', cache)
    return out

def run_many(scens, glog=False, workers=None):
    with concurrent.futures.ThreadPoolExecutor(max_workers=workers or NCPU) as ex:
        return list(ex.map(lambda s: run_scenario(s, glog=glog), scens))

def gen_suite(seed, tier, kinds):
    rng = random.Random(seed * 7919 + 13)
    quick = tier == 'quick'
    counts = {'collective': 1, 'mixed': 60 if quick else 1200, 'aggregate': 16 if quick else 200, 'stream': 12 if quick else 150,
              'storm': 20 if quick else 300, 'masked': 14 if quick else 200, 'amplify': 4 if quick else 40, 'cyclic': 16 if quick else 120}
    out = []
    for k in kinds:
        for i in range(counts[k]):
            if k == 'mixed':
                out.append(gen_mixed(rng, i, tier))
            else:
                out.append(GENERATORS[k](rng, i))
    return out

# ---------------------------------------------------------------------------
# oracles.  Each returns a list of failure dicts (empty = clause holds on this run).

def fail(s, r, what, **kw):
    d = {'what': what, 'kind': s.kind, 'config': s.text().split('\n')[0], 'scenario': s.text(), 'cmd': r.get('cmd', '')}
    d.update(kw)
    return d

def parse_kv(rest):
    return dict(x.split('=', 1) for x in rest.split() if '=' in x)

def oracle_liveness(s, r):
    """C03: the run ends, no deadlock/livelock/abort/assert/exception/MPI misuse."""
    if r['verdict'] == 'ok':
        return []
    exc = [n[4] for n in r['notes'] if n[3] == 'EXC']
    what = 'run ended with %s%s' % (r['verdict'], (': ' + r['detail']) if r['detail'] else '')
    blocked = [l for l in r['states'] if 'blocked-in ALLREDUCE' in l or 'blocked-in BCAST' in l or 'blocked-in EXSCAN' in l]
    polling = [l for l in r['states'] if '(polling)' in l]
    if r['verdict'] in ('spin', 'deadlock') and blocked and polling and s.kind == 'collective':
        what += ' [a rank is inside a blocking collective (it does not service receives) while a peer polls in the back-pressure wait of async]'
    return [fail(s, r, what, states=r['states'], exception=exc[:3], stderr=r.get('stderr'))]

def oracle_exactly_once(s, r, kinds=('A', 'AR', 'F', 'M', 'B')):
    """C01 / C05: every message's handler runs exactly once per expected destination, there, with its arguments."""
    if r['verdict'] != 'ok':
        return []      # reported by the liveness oracle (C03); counted there
    exp = expected_execs(s)
    got, bad = {}, []
    orig = {}
    for step, rk, seq, tag, rest in r['notes']:
        if tag in ('O', 'OB', 'OM'):
            u = int(rest.split()[0])
            orig[u] = parse_kv(rest)
        if tag == 'X':
            u = int(rest.split()[0])
            kv = parse_kv(rest)
            got.setdefault(u, []).append(rk)
            m = s.meta.get(u)
            if m is None:
                bad.append(fail(s, r, 'handler executed for a message nobody sent: uid %d on rank %d' % (u, rk)))
                continue
            if m['kind'] not in kinds:
                continue
            if kv.get('ok') != '1' or int(kv.get('len', -1)) != m['len']:
                bad.append(fail(s, r, 'message %d arrived with corrupted payload (len %s, expected %d, content ok=%s) on rank %d' % (u, kv.get('len'), m['len'], kv.get('ok'), rk)))
            if m['kind'] == 'F' and int(kv.get('extra', -1)) != m['state']:
                bad.append(fail(s, r, 'functor state of message %d arrived as %s, sent %d' % (u, kv.get('extra'), m['state'])))
    for u, ranks in exp.items():
        if s.meta[u]['kind'] not in kinds:
            continue
        g = sorted(got.get(u, []))
        if g != ranks:
            k = s.meta[u]['kind']
            name = {'B': 'async_bcast', 'M': 'async_mcast'}.get(k, 'async')
            bad.append(fail(s, r, '%s uid %d executed on ranks %s, expected exactly %s' % (name, u, g, ranks), uid=u, meta=s.meta[u]))
            if len(bad) > 5:
                break
    return bad

def oracle_barrier(s, r):
    """C02: when barrier k returns on any rank, every rank has entered it and all work of epochs <= k
    (messages, their descendants, callbacks) has finished executing."""
    if r['verdict'] != 'ok':
        return []
    bad = []
    pos = {}            # event -> global position index
    order = r['notes']
    BI, BO, xend, cbx = {}, {}, {}, {}
    cbreg = {}
    final_do = {}
    for i, (step, rk, seq, tag, rest) in enumerate(order):
        if tag == 'BI':
            BI[(int(rest), rk)] = i
        elif tag == 'BO':
            BO[(int(rest), rk)] = i
        elif tag == 'x':
            xend.setdefault(int(rest.split()[0]), []).append(i)
        elif tag == 'cbx':
            cbx.setdefault(int(rest), []).append(i)
        elif tag == 'CBR':
            # epoch of registration = number of BO seen so far on that rank + 1
            k = 1 + sum(1 for (kk, rr) in BO if rr == rk and BO[(kk, rr)] < i)
            cbreg.setdefault(int(rest), []).append((rk, k, i))
        elif tag == 'DO':
            final_do[rk] = i
    exp = expected_execs(s)
    nb = s.nbar
    for k in range(1, nb + 1):
        outs = [BO.get((k, rk)) for rk in range(s.n)]
        if any(o is None for o in outs):
            bad.append(fail(s, r, 'barrier %d did not return on every rank' % k)); break
        first_out = min(outs)
        for rk in range(s.n):
            if BI.get((k, rk), 1 << 60) > first_out:
                bad.append(fail(s, r, 'barrier %d returned on some rank before rank %d entered it' % (k, rk)))
        for u, ranks in exp.items():
            if s.meta[u]['epoch'] <= k:
                ends = xend.get(u, [])
                if len(ends) < len(ranks) or (ends and max(ends) > first_out):
                    bad.append(fail(s, r, 'barrier %d returned (global position %d) before message %d of epoch %d finished executing (%d of %d executions done, last at %s)' % (
                        k, first_out, u, s.meta[u]['epoch'], sum(1 for e in ends if e < first_out), len(ranks), max(ends) if ends else None), uid=u))
                    break
        for cid, regs in cbreg.items():
            for rk, ek, i in regs:
                if ek <= k:
                    done = [j for j in cbx.get(cid, []) if j > i]
                    if not done or min(done) > BO[(k, rk)]:
                        bad.append(fail(s, r, 'pre-barrier callback %d registered on rank %d in epoch %d had not run when barrier %d returned there' % (cid, rk, ek, k)))
        if len(bad) > 5:
            break
    # the destructor's barrier: everything has executed when the communicator is gone
    for rk, i in final_do.items():
        for u, ranks in exp.items():
            ends = xend.get(u, [])
            if len(ends) < len(ranks) or max(ends) > i:
                bad.append(fail(s, r, 'communicator destroyed on rank %d before message %d finished executing' % (rk, u), uid=u))
                break
        break
    return bad

def oracle_atomic(s, r):
    """C08: no handler inside another, none while a mask is alive, by-reference arguments serialized unchanged."""
    if r['verdict'] != 'ok':
        return []
    bad = []
    ref = {}
    for step, rk, seq, tag, rest in r['notes']:
        if tag == 'O':
            kv = parse_kv(rest)
            # only asyncs issued from inside a handler: there progress is deferred until the handler ends.  An async
            # from the main program may legally run handlers (back-pressure wait) before it serializes.
            if 'ref' in kv and int(kv.get('parent', -1)) >= 0:
                ref[int(rest.split()[0])] = int(kv['ref'])
        elif tag == 'X':
            kv = parse_kv(rest)
            u = int(rest.split()[0])
            if kv.get('depth') != '0':
                bad.append(fail(s, r, 'handler of message %d started on rank %d while another handler was active (depth %s)' % (u, rk, kv.get('depth')), uid=u))
            if kv.get('masks') != '0':
                bad.append(fail(s, r, 'handler of message %d ran on rank %d while %s interrupt mask(s) were alive' % (u, rk, kv.get('masks')), uid=u))
            if kv.get('kind') == '1' and u in ref and int(kv.get('extra', -1)) != ref[u]:
                bad.append(fail(s, r, 'by-reference argument of message %d was %d when async was called but arrived as %s' % (u, ref[u], kv.get('extra')), uid=u))
        elif tag == 'NESTED':
            bad.append(fail(s, r, 'a received lambda started while another one was executing on rank %d (%s)' % (rk, rest)))
        if len(bad) > 5:
            break
    return bad

def oracle_capacity(s, r):
    """C07: aggregation up to the capacity; unsent <= capacity after a main-context async; pending bounded for pure streamers."""
    if r['verdict'] != 'ok':
        return []
    bad = []
    cap = s.cap()
    hdr = 0 if s.routing == 'NONE' else 8
    # (b) unsent bytes after every main-context async
    maxwire = max([hdr + 18 + m['len'] for u, m in s.meta.items() if isinstance(u, int)] + [0])
    for step, rk, seq, tag, rest in r['notes']:
        if tag == 'S':
            kv = parse_kv(rest)
            if int(kv['sb']) > cap:
                bad.append(fail(s, r, 'after an async from the main program rank %d holds %s unsent bytes, capacity is %d' % (rk, kv['sb'], cap)))
                break
    # real wire sizes of the messages (hook originate: header + body bytes as appended to the send buffer), so that a change of the
    # wire layout that still round-trips does not turn into a false alarm here; the modelled sizes are compared at model level
    realw = {}
    for step, rk, seq, tag, rest in r['notes']:
        if tag == 'OR':
            kv = parse_kv(rest)
            realw.setdefault(rk, []).append(int(kv.get('hdr', 0)) + int(kv.get('body', 0)))
    # the send-size theorem (C03_every_physical_send_is_bounded): without broadcasts no physical send exceeds capacity + 2 x the
    # largest message on the wire
    has_bcast = any(a and a[0] == 'B' for prog in list(s.main.values()) + list(s.msg.values()) + list(s.cb.values()) for a in prog)
    allw = [w for ws in realw.values() for w in ws]
    if not has_bcast and allw and r.get('posts'):
        lim = cap + 2 * max(allw)
        big = [p for p in r['posts'] if p[1] == 'POST' and p[6] > lim]
        if big:
            bad.append(fail(s, r, 'a physical send of %d bytes from rank %d exceeds capacity + 2 x largest message = %d (RankSendBoundAll.every_send_is_bounded does not hold on this run)' % (
                big[0][6], big[0][3], lim), level='model'))
    if s.kind == 'stream':
        snd = s.meta['stream']['sender']
        one = max(realw.get(snd, []) + [0]) or s.meta['stream']['maxwire']
        if one != s.meta['stream']['maxwire']:
            bad.append(fail(s, r, 'the largest message of the streaming rank takes %d wire bytes, the model says %d' % (one, s.meta['stream']['maxwire']), level='model'))
        bound = 2 * cap + one
        for step, rk, seq, tag, rest in r['notes']:
            if tag == 'S' and rk == snd:
                kv = parse_kv(rest)
                if int(kv['pend']) > bound:
                    bad.append(fail(s, r, 'streaming rank has %s bytes posted-but-incomplete, bound is 2*%d + %d' % (kv['pend'], cap, one)))
                    break
        # the coordinator's view: bytes posted and not yet complete
        inflight, worst = {}, 0
        for st, kind, sid, src, dst, comm, ln in r['posts']:
            if src != snd:
                continue
            if kind == 'POST' and dst != src:
                inflight[sid] = ln
            elif kind == 'SENDDONE':
                inflight.pop(sid, None)
            worst = max(worst, sum(inflight.values()))
        if worst > bound:
            bad.append(fail(s, r, 'the network saw %d bytes posted-but-incomplete from the streaming rank, bound is %d' % (worst, bound)))
    if s.kind == 'aggregate':
        b = s.meta['batch']
        bi = [st for st, rk, seq, tag, rest in r['notes'] if tag == 'BI' and rk == b['sender']]
        mine = [p for p in r['posts'] if p[1] == 'POST' and p[3] == b['sender'] and p[6] > 0]
        total = sum(p[6] for p in mine)
        if total != b['wire']:
            bad.append(fail(s, r, 'the batch takes %d wire bytes, the model says %d' % (total, b['wire']), level='model'))
        if total <= cap:
            # the premise of the clause holds on the real sizes: the batch fits the capacity
            early = [p for p in mine if bi and p[0] < bi[0]]
            if early:
                bad.append(fail(s, r, 'a batch of %d wire bytes (capacity %d) was put on the wire before the flush point: %d physical send(s) before barrier()' % (total, cap, len(early))))
            elif len(mine) != 1:
                bad.append(fail(s, r, 'a batch to one destination that fits the capacity (%d of %d bytes) travelled as %d physical sends' % (total, cap, len(mine)), sends=[(p[4], p[6]) for p in mine]))
    return bad

def oracle_layout(s, r):
    """The layout tables every rank built equal the placement's (ties Layout.block_layout / Bcast.placed_layout to layout.hpp)."""
    bad = []
    n, p = s.n // s.ppn, s.ppn
    if getattr(s, 'placement', None):
        # nodes are numbered by their lowest rank, the ranks of a node by rank order
        lab = s.placement
        order = []
        for x in lab:
            if x not in order:
                order.append(x)
        members = {x: [q for q in range(s.n) if lab[q] == x] for x in order}
        nd, lc, rk, name = (lambda x: order.index(lab[x])), (lambda x: members[lab[x]].index(x)), (lambda a, l: members[order[a]][l]), 'the given'
    elif getattr(s, 'cyclic', False):
        nd, lc, rk, name = (lambda x: x % n), (lambda x: x // n), (lambda a, l: l * n + a), 'round-robin'
    else:
        nd, lc, rk, name = (lambda x: x // p), (lambda x: x % p), (lambda a, l: a * p + l), 'block'
    for step, rank, seq, tag, rest in r['notes']:
        if tag == 'LAYOUT':
            kv = parse_kv(rest)
            exp = {'size': str(s.n), 'rank': str(rank), 'nodes': str(n), 'node': str(nd(rank)), 'lsize': str(p), 'lid': str(lc(rank)),
                   'strided': ''.join('%d,' % rk(a, lc(rank)) for a in range(n)),
                   'locals': ''.join('%d,' % rk(nd(rank), l) for l in range(p)),
                   'r2n': ''.join('%d,' % nd(x) for x in range(s.n)), 'r2l': ''.join('%d,' % lc(x) for x in range(s.n))}
            for k, v in exp.items():
                if kv.get(k) != v:
                    bad.append(fail(s, r, 'layout table %s on rank %d is %s, %s placement gives %s' % (k, rank, kv.get(k), name, v), level='model'))
                    break
    return bad

def distribution(scens, runs):
    """What was actually generated/run (goes into the evidence)."""
    d = {'scenarios': len(scens), 'by_kind': {}, 'by_layout': {}, 'by_routing': {}, 'by_capacity_kb': {}, 'by_policy': {}, 'verdicts': {},
         'messages': 0, 'handler_sends': 0, 'bcasts': 0, 'mcasts': 0, 'masked_sections': 0, 'mpi_messages': 0, 'steps': 0}
    for s, r in zip(scens, runs):
        d['by_kind'][s.kind] = d['by_kind'].get(s.kind, 0) + 1
        lay = '%dx%d' % (s.n // s.ppn, s.ppn)
        d['by_layout'][lay] = d['by_layout'].get(lay, 0) + 1
        d['by_routing'][s.routing] = d['by_routing'].get(s.routing, 0) + 1
        d['by_capacity_kb'][str(s.bufkb)] = d['by_capacity_kb'].get(str(s.bufkb), 0) + 1
        d['by_policy'][s.policy] = d['by_policy'].get(s.policy, 0) + 1
        d['verdicts'][r['verdict']] = d['verdicts'].get(r['verdict'], 0) + 1
        for u, m in s.meta.items():
            if not isinstance(u, int):
                continue
            d['messages'] += 1
            d['handler_sends'] += 1 if m.get('parent', -1) >= 0 else 0
            d['bcasts'] += 1 if m['kind'] == 'B' else 0
            d['mcasts'] += 1 if m['kind'] == 'M' else 0
        d['masked_sections'] += sum(1 for r_ in s.main.values() for a in r_ if a[0] == 'MON')
        d['mpi_messages'] += r.get('stats', {}).get('msgs', 0)
        d['steps'] += r.get('stats', {}).get('steps', 0)
    return d

# ---------------------------------------------------------------------------
# lock-step of the extracted RankMachine against the recorded MPI logs (tie D)

def lockstep_exe():
    """Compile ocaml/lockstep.ml with the model extracted by coq/Extract.v (built by `make Extract.vo`)."""
    gen = os.path.join(VERIF, 'ocaml', 'gen')
    srcs = [os.path.join(gen, 'rankmachine.mli'), os.path.join(gen, 'rankmachine.ml'), os.path.join(VERIF, 'ocaml', 'lockstep.ml')]
    if not all(os.path.exists(p) for p in srcs):
        return None, 'extracted model missing (coq/Extract.v did not build)'
    key = file_hash(*srcs)
    out = os.path.join(BIN, 'lockstep-%s' % key)
    if os.path.exists(out):
        return out, None
    with Lock('bin-lockstep'):
        if os.path.exists(out):
            return out, None
        d = os.path.join(BUILD, 'ocaml-' + key)
        os.makedirs(d, exist_ok=True)
        for p in srcs:
            shutil.copy(p, d)
        rc, log = sh(['ocamlfind', 'ocamlopt', '-w', '-a', 'rankmachine.mli', 'rankmachine.ml', 'lockstep.ml', '-o', out + '.tmp'], cwd=d, timeout=300)
        shutil.rmtree(d, ignore_errors=True)
        if rc != 0:
            return None, log[-1500:]
        os.rename(out + '.tmp', out)
        import glob as _g
        for old in _g.glob(os.path.join(BIN, 'lockstep-*')):
            if old != out:
                try: os.remove(old)
                except OSError: pass
    return out, None

def lockstep_scenario(s):
    """Run the scenario with byte logging and replay every rank's log into the model."""
    exe, err = harness()
    if exe is None:
        return {'status': 'build', 'detail': err[-800:]}
    ls, err = lockstep_exe()
    if ls is None:
        return {'status': 'build', 'detail': err}
    key = hashlib.sha256((os.path.basename(exe) + os.path.basename(ls) + s.text() + 'lockstep').encode()).hexdigest()[:20]
    cache = os.path.join(RUNS, 'ls-' + key + '.json')
    if os.path.exists(cache):
        try:
            return json.load(open(cache))
        except Exception:
            pass
    d = os.path.join(RUNS, 'ls-' + key)
    shutil.rmtree(d, ignore_errors=True)
    os.makedirs(d)
    with open(os.path.join(d, 'scenario.scn'), 'w') as fh:
        fh.write(s.text())
    env = dict(s.env()); env['SIMMPI_LOGBYTES'] = 1
    r = simrun(exe, s.n, [os.path.join(d, 'scenario.scn')], ppn=s.ppn, seed=s.seed, policy=s.policy, env=env, eager=s.eager, logdir=d, wall=40, spin=300000)
    out = {'status': 'skipped', 'verdict': r['verdict'], 'ranks': s.n, 'events': 0, 'mismatches': [], 'scenario': s.text(), 'cmd': r['cmd']}
    if r['verdict'] == 'ok':
        routing = ROUTINGS.index(s.routing)
        rc, o = sh('ulimit -s unlimited; %s %s %d %d %d %d %d %d' % (ls, d, s.n, s.ppn, routing, s.cap(), s.nisw, s.freq), timeout=120)
        m = re.search(r'LOCKSTEP (\w+) ranks=(\d+) events=(\d+)', o)
        if m:
            out['status'] = m.group(1)
            out['events'] = int(m.group(3))
            out['mismatches'] = [l for l in o.split('\n') if 'MISMATCH' in l][:6]
            lg = re.search(r'LEGAL (\S+)', o)
            out['legal'] = lg.group(1) if lg else 'unknown'
        else:
            out['status'] = 'driver-crash'
            out['mismatches'] = [o[-600:]]
    shutil.rmtree(d, ignore_errors=True)
    with open(cache + '.tmp', 'w') as fh:
        json.dump(out, fh)
    os.rename(cache + '.tmp', cache)
    return out

def lockstep_many(scens, workers=None):
    with concurrent.futures.ThreadPoolExecutor(max_workers=workers or NCPU) as ex:
        return list(ex.map(lockstep_scenario, scens))
