"""C06 — arguments and functor state arrive bit-exact; packed messages never overlap (DESIGN §5 C06)."""
import re
from . import *

def harness():
    return compile_sim('codec', ['harness/codec.cpp'])

def archive_cases(seed, count, big):
    exe, err = harness()
    if exe is None:
        return None, err
    rc, out = sh([exe, 'archive', str(seed), str(count), str(big)], timeout=300)
    lines = [l for l in out.split('\n') if l.startswith(('V ', 'J '))]
    if rc != 0:
        # the harness died inside the real archive: the case after the last one printed is the failing input
        return None, 'exit status %s after %d cases; last case completed: %s\n%s' % (rc, len(lines), (lines[-1][:300] if lines else '-'), out[-1200:])
    return lines, None

def hexlist(h):
    return '[' + '; '.join(str(int(h[i:i + 2], 16)) for i in range(0, len(h), 2)) + ']' if h != '-' else '[]'

def coq_check_shard(lines, name):
    vs, js = [], []
    for l in lines:
        parts = [p.strip() for p in l[2:].split('|')]
        if l.startswith('V '):
            vs.append('(%s, %s, %s)' % (parts[0], parts[1], hexlist(parts[2])))
        else:
            js.append('(%s, %s)' % (parts[0], hexlist(parts[1])))
    text = '''From Coq Require Import ZArith List Bool. Import ListNotations.
From Ygm Require Import Wire.
Local Open Scope Z_scope.
Fixpoint zl_eqb (a b : list Z) : bool := match a, b with [], [] => true | x :: a', y :: b' => (x =? y) && zl_eqb a' b' | _, _ => false end.
Definition vcases : list (shape * value * list Z) := [
%s].
Definition jcases : list (json * list Z) := [
%s].
(* encode gives the implementation's bytes; decode of those bytes followed by a sentinel gives back a value whose
   encoding is again those bytes and leaves exactly the sentinel *)
Definition vok (c : shape * value * list Z) : bool := let '(s, v, b) := c in
  zl_eqb (encode s v) b &&
  match decode s (b ++ [171; 205]) with Some (v', r) => zl_eqb (encode s v') b && zl_eqb r [171; 205] | None => false end.
Definition jok (c : json * list Z) : bool := let '(j, b) := c in
  zl_eqb (encode_json j) b &&
  match decode_json (S (length b)) (b ++ [171; 205]) with Some (j', r) => zl_eqb (encode_json j') b && zl_eqb r [171; 205] | None => false end.
Fixpoint first_bad {A} (f : A -> bool) (i : nat) (l : list A) : option nat := match l with [] => None | c :: r => if f c then first_bad f (S i) r else Some i end.
Eval vm_compute in (length vcases, first_bad vok 0 vcases, length jcases, first_bad jok 0 jcases).
''' % (';\n'.join(vs), ';\n'.join(js))
    rc, out = coq_eval(name, text, timeout=900)
    m = re.search(r'=\s*\((\d+)%?\w*,\s*(None|Some\s+(\d+))%?\w*,\s*(\d+)%?\w*,\s*(None|Some\s+(\d+))', out)
    if rc != 0 or not m:
        return 0, 'coqc failed on Tab_%s.v: ' % name + out[-1200:], None
    n = int(m.group(1)) + int(m.group(4))
    if m.group(2) != 'None':
        return n, None, [l for l in lines if l.startswith('V ')][int(m.group(3))]
    if m.group(5) != 'None':
        return n, None, [l for l in lines if l.startswith('J ')][int(m.group(6))]
    return n, None, None

def comm_runs(seed, tier):
    exe, err = harness()
    if exe is None:
        return [], [{'what': 'codec harness does not compile against the current headers', 'log': err[-1500:]}]
    fails, nmsg = [], 0
    cfgs = [(4, 2, 'NLNR', 1), (4, 2, 'NR', 0), (3, 3, 'NONE', 1), (6, 2, 'NLNR', 16384), (2, 1, 'NR', 1)]
    if tier != 'quick':
        cfgs += [(8, 2, 'NLNR', 1), (6, 3, 'NR', 2), (9, 3, 'NLNR', 0), (4, 4, 'NONE', 0)]
    for i, (n, ppn, routing, kb) in enumerate(cfgs):
        r = simrun(exe, n, ['comm', seed + i, 60 if tier == 'quick' else 300], ppn=ppn, seed=seed + i, policy=['uniform', 'late', 'early'][i % 3],
                   env={'YGM_COMM_ROUTING': routing, 'YGM_COMM_BUFFER_SIZE_KB': kb, 'YGM_COMM_IRECV_SIZE_KB': 4096}, wall=60)
        xs = [l for l in r['out'] if l.startswith('X ')]
        nmsg += len(xs)
        cfg = 'n=%d ppn=%d routing=%s bufkb=%d' % (n, ppn, routing, kb)
        if r['verdict'] != 'ok':
            fails.append({'what': 'run ended with %s %s (a mis-framed buffer shows up as a crash or a wrong lambda id)' % (r['verdict'], r['detail']), 'config': cfg, 'cmd': r['cmd'],
                          'states': [l for l in r['out'] if l.startswith(('STATE', 'EXIT'))][:8]})
            continue
        packed = {}
        for l in r['out']:
            if l.startswith('OS '):
                kv = dict(t.split('=') for t in l.split()[1:])
                packed[kv['uid']] = int(kv['body'])
        for l in xs:
            kv = dict(t.split('=') for t in l.split()[1:])
            if kv['ok'] != '1':
                fails.append({'what': 'functor state or arguments of message %s arrived changed (functor size %s)' % (kv['uid'], kv['fsize']), 'config': cfg, 'cmd': r['cmd']}); break
            if int(kv['uid']) % 100000 >= 50000:
                continue        # a broadcast leg: re-packed by the forwarding stages, byte counts are not compared
            # each handler consumes exactly the bytes its sender packed for it (2 of them are the lambda id, read by the dispatcher)
            body = packed.get(kv['uid'])
            if body is not None and int(kv['consumed']) != body - 2:
                fails.append({'what': 'handler of message %s consumed %s bytes, the sender packed %d bytes of functor state and arguments for it (functor size %s)' % (kv['uid'], kv['consumed'], body - 2, kv['fsize']), 'config': cfg, 'cmd': r['cmd']}); break
            if routing != 'NONE' and body is not None and int(kv['hsize']) != body:
                fails.append({'what': 'header of message %s says %s bytes, the sender packed %d' % (kv['uid'], kv['hsize'], body), 'config': cfg, 'cmd': r['cmd']}); break
            # the modelled layout (Wire.v): functor bytes, 8-byte size tags
            if kv['consumed'] != kv['expect']:
                fails.append({'what': 'handler of message %s consumed %s bytes, the modelled layout has %s (functor size %s)' % (kv['uid'], kv['consumed'], kv['expect'], kv['fsize']), 'config': cfg, 'cmd': r['cmd'], 'level': 'model'}); break
        cnt = 60 if tier == 'quick' else 300
        want = n * cnt + n * n * (cnt // 10)
        if len(xs) != want:
            fails.append({'what': '%d handler executions; %d asyncs and %d broadcasts with stateful functors on %d ranks need %d' % (len(xs), n * cnt, n * (cnt // 10), n, want), 'config': cfg, 'cmd': r['cmd']})
    return nmsg, fails

def coq_check(lines, tag='codec'):
    """the table is sharded (vm_compute on very large list literals is slow) and the shards are evaluated in parallel"""
    import concurrent.futures
    size = 150
    shards = [lines[i:i + size] for i in range(0, len(lines), size)] or [[]]
    with concurrent.futures.ThreadPoolExecutor(max_workers=max(2, NCPU // 2)) as ex:
        res = list(ex.map(lambda a: coq_check_shard(a[1], '%s_%d' % (tag, a[0])), enumerate(shards)))
    n = sum(r[0] for r in res)
    for r in res:
        if r[1] or r[2]:
            return n, r[1], r[2]
    return n, None, None

def run(tier, seed, replay=None):
    def tie(res):
        count, big = (340, 20000) if tier == 'quick' else (3400, 60000)
        lines, err = archive_cases(seed, count, big)
        if lines is None:
            return {'ok': False, 'msg': 'codec harness failed', 'failures': [{'what': 'codec harness does not build, or the real archive aborted / crashed while round-tripping a generated value (%s)' % err.split('\n')[0][:200], 'log': err,
                                                                              'replay': 'build/codec archive %d %d %d' % (seed, count, big)}]}
        fails = []
        for l in lines:
            if 'rt=1' not in l or (l.startswith('V ') and 'rest=1' not in l):
                fails.append({'what': 'the real archive does not round-trip a value (or reads past its own bytes)', 'case': l[:400]})
        n, err, bad = coq_check(lines)
        if bad:
            fails.append({'what': 'Wire.encode/decode disagree with the real archive on a value (the byte layout of the model is not the implementation\'s)', 'case': bad[:600], 'level': 'model'})
        nmsg, cf = comm_runs(seed, tier)
        fails += cf
        shapes = sorted({l.split('|')[0][2:].strip() for l in lines if l.startswith('V ')})
        return {'ok': err is None and not bad, 'msg': err or ('model/archive disagreement' if bad else None), 'failures': fails if not bad else fails,
                'validated': n, 'evaluations': len(lines) + nmsg, 'nontrivial': len({l for l in lines}),
                'rule': '%d generated values of %d type shapes (sizes 0,1,2,3,7,8,9,31,255,256,257 and %d) through the real archive, compared with Wire.encode/decode evaluated in Coq; %d messages with functors of 1,4,8,12,13,24 bytes through comm on multi-node layouts with tiny buffers (several messages per buffer, forwarding)' % (len(lines), len(shapes) + 1, big, nmsg),
                'samples': [lines[6][:300], lines[16][:300]] if len(lines) > 16 else lines[:2],
                'tie': 'D: bytes produced by YGMOutputArchive for generated values = Wire.encode; Wire.decode of them returns the value and leaves the sentinel; handler-side byte consumption and header size measured through hook H1',
                'extra': {'type_shapes': shapes, 'json_values': sum(1 for l in lines if l.startswith('J ')), 'messages_through_comm': nmsg}}
    def search():
        lines, err = archive_cases(seed + 77, 1000, 60000)
        out = []
        if lines is None:
            out.append({'what': 'the real archive aborted / crashed while round-tripping a generated value (%s)' % (err or '').split('\n')[0][:200]})
        for l in lines or []:
            if 'rt=1' not in l or (l.startswith('V ') and 'rest=1' not in l):
                out.append({'what': 'the real archive does not round-trip a value (or reads past its own bytes)', 'case': l[:400]})
        nm, cf = comm_runs(seed + 77, 'thorough')
        return out + cf
    return run_check('C06', tier, seed, 'Properties_C06.v', [], tie, search,
                     trusted=['coq/Wire.v models the output format of cereal\'s template dispatch for the shapes used (hand-written, tied by the differential run)',
                              'memcpy safety / alignment of l_storage are not modelled', 'simmpi; hook H1; harness/codec.cpp',
                              'the JSON codec is executable and differentially checked; its round-trip is an Example, not a theorem'],
                     assumptions=['message bodies below 2^32 bytes (uint32_t header field)', 'buffers fit the posted receive size'])
