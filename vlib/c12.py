from . import cont
def run(tier, seed, replay=None):
    return cont.run('C12', tier, seed, replay)
