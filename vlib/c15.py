from . import cont
def run(tier, seed, replay=None):
    return cont.run('C15', tier, seed, replay)
