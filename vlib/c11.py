from . import cont
def run(tier, seed, replay=None):
    return cont.run('C11', tier, seed, replay)
