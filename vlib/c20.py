from . import cont
def run(tier, seed, replay=None):
    return cont.run('C20', tier, seed, replay)
