from . import core
def run(tier, seed, replay=None):
    return core.run('C03', tier, seed, replay)
