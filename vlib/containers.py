"""Histories on the real containers under simmpi, and their comparison with coq/ContainerModel.v
(C11, C12, C13, C14, C15, C16, C20; DESIGN §3.3)."""
import concurrent.futures, hashlib, json, os, random, re, shutil
from . import *
from .traffic import LAYOUTS, ROUTINGS, POLICIES, RUNS

BIG = 1 << 20

def harness():
    return compile_sim('containers', ['harness/containers.cpp'])

class History:
    def __init__(self, n, ppn, routing, bufkb, policy, seed, alen):
        self.n, self.ppn, self.routing, self.bufkb, self.policy, self.seed, self.alen = n, ppn, routing, bufkb, policy, seed, alen
        self.ops = []      # (id, rank, epoch, code, args)
        self.epochs = 0

    def text(self):
        out = ['# n=%d ppn=%d routing=%s bufkb=%d policy=%s seed=%d' % (self.n, self.ppn, self.routing, self.bufkb, self.policy, self.seed), 'alen %d' % self.alen]
        for o in self.ops:
            out.append('op %d %d %d %s %s' % (o[0], o[1], o[2], o[3], ' '.join(map(str, o[4]))))
        return '\n'.join(out) + '\n'

def gen_history(rng, idx, tier):
    n, ppn = LAYOUTS[idx % len(LAYOUTS)]
    if n > 9:
        n, ppn = rng.choice([(4, 2), (6, 3), (6, 2), (3, 1), (2, 2), (5, 1), (8, 2)])
    h = History(n, ppn, rng.choice(ROUTINGS), rng.choice([0, 1, 1, 16384]), rng.choice(POLICIES), rng.randrange(1, 1 << 30), rng.choice([0, 1, n - 1, n, n + 1, 2 * n + 1, 23]))
    h.epochs = rng.choice([2, 3, 4])
    oid = [0]
    def add(rank, e, code, *a):
        oid[0] += 1
        h.ops.append((oid[0], rank, e, code, list(a)))
    keys = [0, 1, 2, 3, 4, 5]
    ckeys = [0, 1, 2, BIG, BIG + 1, 2 * BIG + 1, 99]
    # contributions to the reducing adapter: zeros and opposite values make cached partials equal to the mapped type's default
    rval = lambda: rng.choice([0, 0, 5, -5, rng.randrange(1, 100), rng.randrange(1, 100)])       # k, k + 2^20, k + 2*2^20 share a cache slot
    for e in range(1, h.epochs + 1):
        # map / multimap / set / multiset: at most 5 operations per key and epoch (all orders are enumerated)
        for cont, codes in (('M', ['MI', 'MIM', 'MV', 'MVE', 'MIV', 'MRA', 'MRX', 'MRN', 'MRN', 'ME']), ('X', ['XI', 'XI', 'XV', 'XVG', 'XVE', 'XE']),
                            ('S', ['SI', 'SE', 'SIM', 'SIM', 'SIC', 'SXM', 'SXC']), ('T', ['TI', 'TI', 'TE'])):
            for k in keys:
                if rng.random() < 0.45:
                    continue
                if cont == 'M' and rng.random() < 0.3:
                    # a burst of non-commutative reduces: with three or more, swapped reducer arguments fit no order
                    for v in rng.sample([1, 10, 100, 1000, 7], rng.choice([3, 4])):
                        add(rng.randrange(n), e, 'MRN', k, v)
                    continue
                for _ in range(rng.choice([1, 2, 3, 4, 5])):
                    c = rng.choice(codes)
                    r = rng.randrange(n)
                    if c in ('MI', 'MIM', 'MRA', 'MRX', 'MRN', 'XI'):
                        add(r, e, c, k, rng.randrange(1, 50))
                    elif c in ('MV', 'MVE', 'XV', 'XVE'):
                        add(r, e, c, k, rng.randrange(1, 9))
                    elif c == 'MIV':
                        add(r, e, c, k, rng.randrange(1, 50), rng.randrange(1, 9))
                    else:
                        add(r, e, c, k)
        # counting set and reducers: many contributions, colliding slots, handler context
        for _ in range(rng.choice([5, 20, 60])):
            k = rng.choice(ckeys)
            r = rng.randrange(n)
            if rng.random() < 0.3:
                add(r, e, 'CH', rng.randrange(n), k, rng.randrange(1, 5))
            else:
                add(r, e, 'CI', k, rng.randrange(1, 5))
        for _ in range(rng.choice([5, 20, 60])):
            k = rng.choice(ckeys)
            r = rng.randrange(n)
            x = rng.random()
            if x < 0.25:
                add(r, e, 'RH', rng.randrange(n), k, rval())
            elif x < 0.8:
                add(r, e, 'RA', k, rval())
            else:
                add(r, e, 'RB', rng.randrange(37), rng.randrange(1, 100))
        for _ in range(rng.choice([0, 3, 10])):
            r = rng.randrange(n)
            x = rng.random()
            if x < 0.4:
                add(r, e, 'BI', rng.randrange(1000))
            elif x < 0.7:
                add(r, e, 'BID', rng.randrange(1000), rng.randrange(n))
            else:
                add(r, e, 'BIV', rng.choice([0, 1, 3]), rng.randrange(1000), rng.randrange(n))
        # array: one family of updates per index and epoch
        for i in range(h.alen):
            if rng.random() < 0.5:
                continue
            fam = rng.choice(['plus', 'xor', 'visit', 'set'])
            for _ in range(rng.choice([1, 2, 3])):
                r = rng.randrange(n)
                if fam == 'plus':
                    c = rng.choice(['AP', 'AM', 'AI'])
                    add(r, e, c, *([i] if c == 'AI' else [i, rng.randrange(1, 20)]))
                elif fam == 'xor':
                    add(r, e, 'AX', i, rng.randrange(1, 255))
                elif fam == 'visit':
                    add(r, e, 'AV', i, rng.randrange(1, 9))
                else:
                    add(r, e, 'AS', i, rng.randrange(100))
    return h

def gen_suite(seed, tier):
    rng = random.Random(seed * 104729 + 7)
    return [gen_history(rng, i, tier) for i in range(24 if tier == 'quick' else 400)]

# ---------------------------------------------------------------------------

def run_history(h):
    exe, err = harness()
    if exe is None:
        return {'verdict': 'build', 'detail': err[-1500:], 'lines': []}
    key = hashlib.sha256((os.path.basename(exe) + h.text()).encode()).hexdigest()[:20]
    cache = os.path.join(RUNS, 'ct-' + key + '.json')
    if os.path.exists(cache):
        try:
            return json.load(open(cache))
        except Exception:
            pass
    d = os.path.join(RUNS, 'ct-' + key)
    shutil.rmtree(d, ignore_errors=True)
    os.makedirs(d)
    hp = os.path.join(d, 'history.txt')
    with open(hp, 'w') as fh:
        fh.write(h.text())
    r = simrun(exe, h.n, [hp, d], ppn=h.ppn, seed=h.seed, policy=h.policy, wall=60, spin=400000,
               env={'YGM_COMM_ROUTING': h.routing, 'YGM_COMM_BUFFER_SIZE_KB': h.bufkb, 'YGM_COMM_IRECV_SIZE_KB': 4096, 'VERIF_CTRACE': 1})
    out = {'verdict': r['verdict'], 'detail': r['detail'], 'lines': r['out'], 'cmd': r['cmd'], 'history': h.text()}
    shutil.rmtree(d, ignore_errors=True)
    with open(cache + '.tmp', 'w') as fh:
        json.dump(out, fh)
    os.rename(cache + '.tmp', cache)
    return out

def run_many(hs):
    with concurrent.futures.ThreadPoolExecutor(max_workers=NCPU) as ex:
        return list(ex.map(run_history, hs))

def parse(lines):
    D, T, Q, Z = {}, {}, {}, {}
    nested = []
    for l in lines:
        if l.startswith('NESTED'):
            nested.append(l)
        if ':' not in l:
            continue
        head, tail = l.split(':', 1)
        hd = head.split()
        if not hd:
            continue
        if hd[0] == 'D':
            D[(int(hd[1]), int(hd[2]), hd[3])] = tail.split()
        elif hd[0] == 'T':
            for t in tail.split():
                i, c = t.split('=')
                T[(int(hd[1]), int(i))] = T.get((int(hd[1]), int(i)), 0) + int(c)
        elif hd[0] == 'Q':
            Q.setdefault((int(hd[1]), hd[3]), {})[int(hd[2])] = tail.strip()
        elif hd[0] == 'Z':
            Z[(int(hd[1]), hd[2])] = (hd[3] if len(hd) > 3 else '', tail.split())
    return D, T, Q, Z, nested

CONT_OF = {'MI': 'M', 'MIM': 'M', 'MV': 'M', 'MVE': 'M', 'MIV': 'M', 'MRA': 'M', 'MRX': 'M', 'MRN': 'M', 'ME': 'M',
           'XI': 'X', 'XV': 'X', 'XVG': 'X', 'XVE': 'X', 'XE': 'X', 'SI': 'S', 'SE': 'S', 'SIM': 'S', 'SIC': 'S', 'SXM': 'S', 'SXC': 'S',
           'TI': 'T', 'TE': 'T', 'AS': 'A', 'AV': 'A', 'AP': 'A', 'AX': 'A', 'AM': 'A', 'AI': 'A'}

def coq_op(o):
    oid, r, e, c, a = o
    if c in ('MI', 'MIM', 'MRA', 'MRX', 'MRN', 'XI'):
        return '%s (%d)' % (c, a[1])
    if c in ('MV', 'MVE', 'XV', 'XVE', 'AV'):
        return '%s %d (%d)' % (c, oid, a[1])
    if c == 'MIV':
        return 'MIV %d (%d) (%d)' % (oid, a[1], a[2])
    if c in ('XVG', 'SIM', 'SIC', 'SXM', 'SXC'):
        return '%s %d' % (c, oid)
    if c in ('AS', 'AP', 'AX', 'AM'):
        return '%s (%d)' % (c, a[1])
    return c

def state_by_key(D, e, cont, n):
    """key -> (list of values in storage order, rank, owner as reported)"""
    st = {}
    placement = []
    for r in range(n):
        for tok in D.get((e, r, cont), []):
            if cont in ('S', 'T'):
                k, o = tok.split('@')
                k = int(k); v = 0
            elif cont == 'A':
                k, v = tok.split('='); k = int(k); v = int(v); o = r
            else:
                kv, o = tok.split('@')
                k, v = kv.split('='); k = int(k); v = int(v)
            st.setdefault(k, []).append(v)
            placement.append((k, r, int(o)))
    return st, placement

def build_cases(h, D, T, conts):
    """One case per (container, key, epoch) with operations: start state, ops, observed state, observed tallies."""
    cases, fails = [], []
    for cont in conts:
        prev = {}
        if cont == 'A':
            prev = {i: [5] for i in range(h.alen)}
        for e in range(1, h.epochs + 1):
            cur, placement = state_by_key(D, e, cont, h.n)
            for k, r, o in placement:
                if r != o:
                    fails.append({'what': 'container %s stores key %d on rank %d, its owner is %d' % (cont, k, r, o), 'epoch': e})
            owners = {}
            for k, r, o in placement:
                owners.setdefault(k, set()).add(r)
            for k, rs in owners.items():
                if len(rs) > 1:
                    fails.append({'what': 'container %s stores key %d on several ranks %s' % (cont, k, sorted(rs)), 'epoch': e})
            ops_by_key = {}
            for o in h.ops:
                if o[2] == e and CONT_OF.get(o[3]) == cont:
                    ops_by_key.setdefault(o[4][0], []).append(o)
            for k in set(list(prev) + list(cur) + list(ops_by_key)):
                ops = ops_by_key.get(k, [])
                start, obs = prev.get(k, []), cur.get(k, [])
                if not ops:
                    if start != obs:
                        fails.append({'what': 'container %s key %d changed from %s to %s in epoch %d without any operation on it' % (cont, k, start, obs, e)})
                    continue
                tl = [(o[0], T.get((e, o[0]), 0)) for o in ops if o[3] in ('MV', 'MVE', 'MIV', 'XV', 'XVG', 'XVE', 'SIM', 'SIC', 'SXM', 'SXC', 'AV') and T.get((e, o[0]), 0)]
                cases.append({'cont': cont, 'key': k, 'epoch': e, 'dflt': 7, 'start': start, 'ops': ops, 'obs': obs, 'tally': tl})
            prev = cur
    return cases, fails

def coq_check_cases(name, cases):
    """Evaluate ContainerModel.outcome_ok on every case inside Coq.  Returns (n, failing case or None, error)."""
    if not cases:
        return 0, None, None
    rows = []
    for c in cases:
        rows.append('(%d, [%s], [%s], [%s], [%s])' % (
            c['dflt'], '; '.join(map(str, c['start'])), '; '.join(coq_op(o) for o in c['ops']),
            '; '.join(map(str, c['obs'])), '; '.join('(%d, %d)' % t for t in c['tally'])))
    text = '''From Coq Require Import ZArith List Bool. Import ListNotations.
From Ygm Require Import ContainerModel.
Local Open Scope Z_scope.
Definition cases : list (Z * list Z * list cop * list Z * list (Z * Z)) := [
%s].
Definition ok (c : Z * list Z * list cop * list Z * list (Z * Z)) := let '(d, st, ops, obs, t) := c in outcome_ok d st ops obs t.
Fixpoint first_bad (i : nat) (l : list (Z * list Z * list cop * list Z * list (Z * Z))) : option nat :=
  match l with [] => None | c :: r => if ok c then first_bad (S i) r else Some i end.
Eval vm_compute in (length cases, first_bad 0 cases).
''' % ';\n'.join(rows)
    rc, out = coq_eval(name, text, timeout=900)
    m = re.search(r'=\s*\((\d+)%?\w*,\s*(None|Some\s+(\d+))', out)
    if rc != 0 or not m:
        return 0, None, 'coqc failed on Tab_%s.v: %s' % (name, out[-1200:])
    if m.group(2) == 'None':
        return int(m.group(1)), None, None
    return int(m.group(1)), cases[int(m.group(3))], None

def show_case(c):
    return {'container': c['cont'], 'key': c['key'], 'epoch': c['epoch'], 'state_before': c['start'],
            'operations_issued': ['%s%s by rank %d (op %d)' % (o[3], o[4], o[1], o[0]) for o in c['ops']],
            'state_after_on_implementation': c['obs'], 'visitor_calls_on_implementation': c['tally']}

def same_on_all_ranks(Q, h):
    fails = []
    for (e, q), per in Q.items():
        if q in ('B.gather0', 'for_all', 'A.for_all'):
            continue
        if len(set(per.values())) > 1:
            fails.append({'what': 'query %s after epoch %d differs between ranks: %s' % (q, e, per)})
    return fails

def expect_counts(h, upto, codes, keypos=0, valpos=1):
    tot = {}
    for o in h.ops:
        if o[2] <= upto and o[3] in codes:
            a = o[4]
            if o[3] in ('CH', 'RH'):
                k, v = a[1], a[2]
            else:
                k, v = a[keypos], a[valpos]
            tot[k] = tot.get(k, 0) + v
    return tot

# ---------------------------------------------------------------------------
# per-property oracles on one run.  Each returns (failures, coq_cases)

def merged(D, e, cont, n):
    m = {}
    for r in range(n):
        for tok in D.get((e, r, cont), []):
            k, v = tok.split('@')[0].split('=')
            if int(k) in m:
                m[int(k)] = ('DUP', m[int(k)], int(v))
            else:
                m[int(k)] = int(v)
    return m

def q_int(Q, e, name):
    per = Q.get((e, name), {})
    vals = set(per.values())
    return int(vals.pop().split()[0]) if len(vals) == 1 else None

def oracle_c11(h, r):
    D, T, Q, Z, nested = parse(r['lines'])
    cases, fails = build_cases(h, D, T, ['M', 'X'])
    fails += same_on_all_ranks(Q, h)
    for e in range(1, h.epochs + 1):
        for cont in ('M', 'X'):
            st, _ = state_by_key(D, e, cont, h.n)
            total = sum(len(v) for v in st.values())
            if q_int(Q, e, cont + '.size') != total:
                fails.append({'what': '%s.size() after epoch %d is %s, the ranks hold %d entries' % (cont, e, q_int(Q, e, cont + '.size'), total)})
            cnt = Q.get((e, 'counts'), {}).get(0, '').split()
            for k in range(6):
                if cnt and int(cnt[k].split('/')[0 if cont == 'M' else 1]) != len(st.get(k, [])):
                    fails.append({'what': '%s.count(%d) after epoch %d is %s, stored values: %s' % (cont, k, e, cnt[k], st.get(k, []))})
        st, _ = state_by_key(D, e, 'M', h.n)
        ag = Q.get((e, 'M.all_gather'), {}).get(0, '').split()
        exp = ['%d=%d' % (k, st[k][0]) for k in sorted([0, 1, 2, 3, 4, 5, BIG, BIG + 1, 99]) if k in st]
        if ag != exp:
            fails.append({'what': 'M.all_gather after epoch %d returned %s, contents give %s' % (e, ag, exp)})
        stx, _ = state_by_key(D, e, 'X', h.n)
        wantx = ['%d=%d' % (k, v) for k in sorted([0, 1, 2, 3, 4, 5, BIG, BIG + 1, 99]) if k in stx for v in sorted(stx[k])]
        for rk in range(h.n):
            gotx = Q.get((e, 'X.all_gather'), {}).get(rk)
            if gotx is not None and gotx.split() != wantx:
                fails.append({'what': 'multimap all_gather after epoch %d on rank %d returned %d values %s, the keys asked for hold %d: %s' % (e, rk, len(gotx.split()), gotx.split()[:8], len(wantx), wantx[:8])})
                break
        tk = Q.get((e, 'M.topk2'), {}).get(0, '').split()
        items = sorted(((v[0], k) for k, v in st.items()), key=lambda x: (-x[0], x[1]))[:2]
        if tk != ['%d=%d' % (k, v) for v, k in items]:
            fails.append({'what': 'M.topk(2) after epoch %d returned %s, contents give %s' % (e, tk, items)})
        for name, k, asc in (('M.topk50', 50, False), ('M.topk3a', 3, True)):
            want = ['%d=%d' % (kk, v) for v, kk in sorted(((v[0], kk) for kk, v in st.items()), key=lambda x: ((x[0] if asc else -x[0]), x[1]))[:k]]
            for rk in range(h.n):
                got = Q.get((e, name), {}).get(rk)
                if got is not None and got.split() != want:
                    fails.append({'what': '%s (k = %d, %s first) after epoch %d on rank %d returned %s, contents give %s' % (name.split('.')[0] + '.topk', k, 'least' if asc else 'greatest', e, rk, got.split()[:8], want[:8])})
                    break
        fa = sum(int(x.split()[0]) for x in Q.get((e, 'for_all'), {}).values())
        if fa != sum(len(v) for v in st.values()):
            fails.append({'what': 'M.for_all visited %d entries after epoch %d, size is %d' % (fa, e, sum(len(v) for v in st.values()))})
    for l in nested:
        fails.append({'what': 'a handler started inside another one during container operations: ' + l})
    return fails, cases

def oracle_c12(h, r):
    D, T, Q, Z, nested = parse(r['lines'])
    cases, fails = build_cases(h, D, T, ['S', 'T'])
    fails += [f for f in same_on_all_ranks(Q, h) if 'S.' in f['what'] or 'T.' in f['what'] or 'counts' in f['what']]
    for e in range(1, h.epochs + 1):
        for cont, pos in (('S', 2), ('T', 3)):
            st, _ = state_by_key(D, e, cont, h.n)
            total = sum(len(v) for v in st.values())
            if q_int(Q, e, cont + '.size') != total:
                fails.append({'what': '%s.size() after epoch %d is %s, the ranks hold %d entries' % (cont, e, q_int(Q, e, cont + '.size'), total)})
            cnt = Q.get((e, 'counts'), {}).get(0, '').split()
            for k in range(6):
                if cnt and int(cnt[k].split('/')[pos]) != len(st.get(k, [])):
                    fails.append({'what': '%s.count(%d) after epoch %d is %s, stored copies: %d' % (cont, k, e, cnt[k].split('/')[pos], len(st.get(k, [])))})
            if cont == 'S' and any(len(v) > 1 for v in st.values()):
                fails.append({'what': 'a set stores a key more than once after epoch %d: %s' % (e, {k: len(v) for k, v in st.items() if len(v) > 1})})
    # consume_all: every element exactly once, the container left empty
    W = {}
    for l in r['lines']:
        if l.startswith('W '):
            t = l.split()
            W.setdefault(t[2], []).append(t[4:])
    if 'S4C' in W:
        import collections
        for cont in ('S4', 'T4'):
            held = collections.Counter(int(x) for toks in W.get(cont, []) for x in toks)
            calls = collections.Counter()
            for toks in W.get(cont + 'C', []):
                for kv in toks:
                    k, n = kv.split('=')
                    calls[int(k)] += int(n)
            if calls != held:
                bad = sorted(k for k in set(held) | set(calls) if held[k] != calls[k])[:5]
                fails.append({'what': '%s consume_all: callback calls per key %s, elements held %s' % (
                    'set' if cont == 'S4' else 'multiset', {k: calls[k] for k in bad}, {k: held[k] for k in bad})})
        for toks in W.get('AFTER', []):
            if toks != ['0', '0']:
                fails.append({'what': 'containers not empty after consume_all: sizes %s' % toks}); break
        if 'S6C' in W:
            calls = collections.Counter()
            for toks in W['S6C']:
                for kv in toks:
                    k, n = kv.split('=')
                    calls[int(k)] += int(n)
            want = collections.Counter(range(24 * 5))
            if calls != want:
                bad = sorted(k for k in set(want) | set(calls) if want[k] != calls[k])[:8]
                fails.append({'what': 'set consume_all whose callback inserts smaller keys into the same set (24 chains of 5): %d of 120 keys were handed to the callback; wrong counts for keys %s' % (
                    sum(1 for k in want if calls[k] == 1), {k: calls[k] for k in bad})})
            if any(t[0] != '0' for t in W.get('S6AFTER', [])):
                fails.append({'what': 'set not empty after iterated consume_all: %s' % W.get('S6AFTER')})
    elif r.get('verdict') == 'ok':
        fails.append({'what': 'no consume_all output'})
    return fails, cases

def oracle_c15(h, r):
    D, T, Q, Z, nested = parse(r['lines'])
    fails = []
    for e in range(1, h.epochs + 1):
        exp = expect_counts(h, e, ('CI', 'CH'))
        got = merged(D, e, 'C', h.n)
        if got != exp:
            bad = sorted(k for k in set(exp) | set(got) if exp.get(k) != got.get(k))[:4]
            fails.append({'what': 'counting_set after epoch %d: counts %s, number of inserts %s (keys %s)' % (
                e, {k: got.get(k) for k in bad}, {k: exp.get(k) for k in bad}, bad), 'epoch': e})
            continue
        if q_int(Q, e, 'C.size') != len(exp):
            fails.append({'what': 'counting_set size() after epoch %d is %s, distinct keys %d' % (e, q_int(Q, e, 'C.size'), len(exp))})
        if q_int(Q, e, 'C.count_all') != sum(exp.values()):
            fails.append({'what': 'counting_set count_all() after epoch %d is %s, inserts %d' % (e, q_int(Q, e, 'C.count_all'), sum(exp.values()))})
        cnt = Q.get((e, 'counts'), {}).get(0, '').split()
        for k in range(6):
            if cnt and int(cnt[k].split('/')[4]) != exp.get(k, 0):
                fails.append({'what': 'counting_set count(%d) after epoch %d is %s, inserts %d' % (k, e, cnt[k].split('/')[4], exp.get(k, 0))})
        ag = Q.get((e, 'C.all_gather'), {}).get(0, '').split()
        want = ['%d=%d' % (k, exp[k]) for k in sorted([0, 1, 2, 3, 4, 5, BIG, BIG + 1, 99]) if k in exp]
        if ag != want:
            fails.append({'what': 'counting_set all_gather after epoch %d returned %s, expected %s' % (e, ag, want)})
        tk = Q.get((e, 'C.topk3'), {}).get(0, '').split()
        items = sorted(exp.items(), key=lambda kv: (-kv[1], kv[0]))[:3]
        if tk != ['%d=%d' % kv for kv in items]:
            fails.append({'what': 'counting_set topk(3) after epoch %d returned %s, expected %s' % (e, tk, items)})
        for name, k, asc in (('C.topk50', 50, False), ('C.topk4a', 4, True)):
            want = ['%d=%d' % kv for kv in sorted(exp.items(), key=lambda kv: ((kv[1] if asc else -kv[1]), kv[0]))[:k]]
            for rk in range(h.n):
                got = Q.get((e, name), {}).get(rk)
                if got is not None and got.split() != want:
                    fails.append({'what': 'counting_set topk (k = %d, %s first) after epoch %d on rank %d returned %s, the counts give %s' % (k, 'least' if asc else 'greatest', e, rk, got.split()[:8], want[:8])})
                    break
        fx = sum(int(x.split()[1]) for x in Q.get((e, 'for_all'), {}).values())
        if fx != sum(exp.values()):
            fails.append({'what': 'counting_set for_all summed %d after epoch %d, inserts %d' % (fx, e, sum(exp.values()))})
    fails += [f for f in same_on_all_ranks(Q, h) if 'C.' in f['what']]
    # long runs of one key inside one epoch
    cs2 = {}
    seen = False
    for l in r['lines']:
        if l.startswith('W ') and ' CS2 :' in l:
            seen = True
            for tok in l.split(':', 1)[1].split():
                k, v = tok.split('=')
                cs2[int(k)] = cs2.get(int(k), 0) + int(v)
    if seen:
        want = {9000 + rk: 70000 for rk in range(h.n)}
        want[8888] = 33000 * h.n
        if cs2 != want:
            bad = sorted(k for k in set(want) | set(cs2) if want.get(k) != cs2.get(k))[:4]
            fails.append({'what': 'counting_set after long runs of one key in one epoch: counts %s, inserts %s' % ({k: cs2.get(k) for k in bad}, {k: want.get(k) for k in bad})})
    elif r.get('verdict') == 'ok':
        fails.append({'what': 'no long-run counting_set output'})
    return fails, []

def oracle_c16(h, r):
    D, T, Q, Z, nested = parse(r['lines'])
    fails = []
    for e in range(1, h.epochs + 1):
        exp = expect_counts(h, e, ('RA', 'RH'))
        got = merged(D, e, 'RM', h.n)
        if got != exp:
            bad = sorted(k for k in set(exp) | set(got) if exp.get(k) != got.get(k))[:4]
            fails.append({'what': 'reducing adapter over a map after epoch %d: values %s, fold of contributions %s' % (
                e, {k: got.get(k) for k in bad}, {k: exp.get(k) for k in bad}), 'epoch': e})
        expa = expect_counts(h, e, ('RB',))
        gota = merged(D, e, 'RARR', h.n)
        for i in range(37):
            if gota.get(i) != expa.get(i, 0):
                fails.append({'what': 'reducing adapter over an array after epoch %d: element %d is %s, fold of contributions %d' % (e, i, gota.get(i), expa.get(i, 0))})
                break
    # reduce_by_key_map: over rank-local vectors of pairs and over the distributed map M
    Y = {}
    for l in r['lines']:
        if l.startswith('Y '):
            t = l.split()
            Y.setdefault(t[2], {})
            for kv in t[4:]:
                k, v = kv.split('=')
                if int(k) in Y[t[2]]:
                    fails.append({'what': 'reduce_by_key_map result %s holds key %s on two ranks' % (t[2], k)})
                Y[t[2]][int(k)] = int(v)
    if 'RBK1' in Y:
        keys = [0, 1, 1048576, 99, 2097153]
        want = {}
        for me in range(h.n):
            for i in range(5 + me):
                k = keys[(i * 7 + me) % 5]
                want[k] = want.get(k, 0) + i + 10 * me + 1
        if Y['RBK1'] != want:
            fails.append({'what': 'reduce_by_key_map over rank-local vectors: %s, per-key fold %s' % (Y['RBK1'], want)})
        wmin = {}
        for me in range(h.n):
            for i in range(5 + me):
                k = keys[(i * 7 + me) % 5]
                wmin[k] = min(wmin.get(k, 1 << 60), i + 10 * me + 1)
        if 'RBK3' in Y and Y['RBK3'] != wmin:
            fails.append({'what': 'reduce_by_key_map with min over positive values: %s, per-key minimum %s' % (Y['RBK3'], wmin)})
        if Y.get('RBK2') != want:
            fails.append({'what': 'reduce_by_key_map over a distributed bag of pairs: %s, per-key fold %s' % (Y.get('RBK2'), want)})
    elif r.get('verdict') == 'ok':
        fails.append({'what': 'no reduce_by_key_map output'})
    return fails, []

def oracle_c13(h, r):
    D, T, Q, Z, nested = parse(r['lines'])
    cases, fails = build_cases(h, D, T, ['A'])
    for e in range(1, h.epochs + 1):
        st, _ = state_by_key(D, e, 'A', h.n)
        if sorted(st) != list(range(h.alen)) or any(len(v) != 1 for v in st.values()):
            fails.append({'what': 'array of length %d: for_all after epoch %d presents indices %s' % (h.alen, e, sorted(st)[:40])})
            continue
        fa = [x.split() for x in Q.get((e, 'A.for_all'), {}).values()]
        if fa and len(fa) == h.n:
            vc, vs, ic, isum, ix = (sum(int(t[i]) for t in fa) for i in range(5))
            tot = sum(v[0] for v in st.values())
            if (vc, vs) != (h.alen, tot):
                fails.append({'what': 'array of length %d on %d ranks: the value-only form of for_all after epoch %d presented %d values (sum %d), the array holds %d (sum %d)' % (h.alen, h.n, e, vc, vs, h.alen, tot)})
            if (ic, isum, ix) != (h.alen, tot, h.alen * (h.alen - 1) // 2):
                fails.append({'what': 'array of length %d on %d ranks: for_all (index, value) after epoch %d presented %d elements (value sum %d, index sum %d), expected %d (%d, %d)' % (
                    h.alen, h.n, e, ic, isum, ix, h.alen, tot, h.alen * (h.alen - 1) // 2)})
    return fails, cases

def oracle_c14(h, r):
    D, T, Q, Z, nested = parse(r['lines'])
    fails = []
    for e in range(1, h.epochs + 1):
        exp = []
        for o in h.ops:
            if o[2] <= e:
                if o[3] in ('BI', 'BID'):
                    exp.append(o[4][0])
                elif o[3] == 'BIV':
                    exp += [o[4][1]] * o[4][0]
        got = sorted(int(x) for rk in range(h.n) for x in D.get((e, rk, 'B'), []))
        if got != sorted(exp):
            fails.append({'what': 'bag after epoch %d holds %s, inserted %s' % (e, got[:30], sorted(exp)[:30])})
        if q_int(Q, e, 'B.size') != len(exp):
            fails.append({'what': 'bag size() after epoch %d is %s, inserted %d' % (e, q_int(Q, e, 'B.size'), len(exp))})
        g0 = [int(x) for x in Q.get((e, 'B.gather0'), {}).get(0, '').split()]
        if g0 != sorted(exp):
            fails.append({'what': 'gather_to_vector(0) after epoch %d returned %d items on rank 0, the bag has %d' % (e, len(g0), len(exp))})
        for o in h.ops:
            if o[2] == e and o[3] in ('BID', 'BIV'):
                v, dest = (o[4][0], o[4][1]) if o[3] == 'BID' else (o[4][1], o[4][2])
                if o[3] == 'BID' and str(v) not in D.get((e, dest, 'B'), []):
                    fails.append({'what': 'item %d inserted with explicit destination %d is not stored there after epoch %d' % (v, dest, e)})
    return fails, []

def oracle_c20(h, r):
    D, T, Q, Z, nested = parse(r['lines'])
    fails = []
    for rk in range(h.n):
        for a, b in (('M', 'M2'), ('X', 'X2'), ('S', 'S2'), ('T', 'T2'), ('B', 'B2'), ('C', 'C2'), ('SM', 'SM2'), ('BD', 'BD2'), ('MD', 'MD2'), ('SS', 'SS2'),
                     ('B6', 'B7'), ('B8', 'B9'), ('M6', 'M7'), ('M8', 'M9'), ('S6', 'S7'), ('S8', 'S9')):
            x, y = Z.get((rk, a)), Z.get((rk, b))
            if x is None or y is None:
                fails.append({'what': 'no serialization dump for %s on rank %d' % (a, rk)})
                continue
            # contents are compared as multisets where the container is one (the order of equal keys inside a
            # multimap / of a bag is not part of its contents: cereal reloads equal keys in reverse order)
            xs, ys = (sorted(x[1]), sorted(y[1])) if a in ('B', 'X', 'T', 'BD', 'B6', 'B8') else (x[1], y[1])
            if xs != ys:
                fails.append({'what': 'deserialize(%s) on rank %d gives %s, the serialized container held %s' % (a, rk, ys[:12], xs[:12])})
            elif x[0] != y[0]:
                fails.append({'what': 'deserialize(%s) on rank %d: default value / cursor %s, serialized %s' % (a, rk, y[0], x[0])})
    # operations issued right after deserialize() returned are not lost, nothing else changes
    def allof(tag):
        return sorted(t for rk in range(h.n) for t in Z.get((rk, tag), ('', []))[1])
    if all((rk, 'M3') in Z for rk in range(h.n)):
        want = sorted(allof('M') + ['%d=7' % (515151 + rk) for rk in range(h.n)])
        if allof('M3') != want:
            fails.append({'what': 'map: deserialize() followed at once by one async_insert per rank holds %d entries, image plus inserts is %d (lost or extra: %s)' % (
                len(allof('M3')), len(want), sorted(set(want) ^ set(allof('M3')))[:8])})
        want = sorted(allof('S') + [str(515151 + rk) for rk in range(h.n)])
        if allof('S3') != want:
            fails.append({'what': 'set: deserialize() followed at once by one async_insert per rank holds %d keys, image plus inserts is %d (lost or extra: %s)' % (
                len(allof('S3')), len(want), sorted(set(want) ^ set(allof('S3')))[:8])})
        want = sorted(allof('B') + [str(515151 + rk) for rk in range(h.n)])
        if allof('B3') != want:
            fails.append({'what': 'bag: deserialize() followed at once by one async_insert per rank holds %d items, image plus inserts is %d' % (len(allof('B3')), len(want))})
    # checkpoint and continue: the image holds what the container held at serialize(), not what was issued after it returned
    if all((rk, 'M5') in Z for rk in range(h.n)):
        for tag, kind, want in (('M5', 'map', ['%d=%d' % (rk, 100 + rk) for rk in range(h.n)]), ('S5', 'set', [str(rk) for rk in range(h.n)]),
                                ('B5', 'bag', [str(rk) for rk in range(h.n)]), ('C5', 'counting_set', ['7=%d' % h.n])):
            if allof(tag) != sorted(want):
                fails.append({'what': '%s: serialize(), then inserts of new keys, then deserialize() of that image into a fresh container: it holds %s, the container held %s when serialize() was called' % (
                    kind, allof(tag)[:10], sorted(want)[:10])})
    allM = {int(t.split('=')[0]) for rk in range(h.n) for t in Z.get((rk, 'M'), ('', []))[1]}
    for rk in range(h.n):
        if 424242 + rk not in allM:
            fails.append({'what': 'an insert issued just before serialize() (key %d) is missing from the image' % (424242 + rk)})
    allB = [int(t) for rk in range(h.n) for t in Z.get((rk, 'B'), ('', []))[1]]
    for rk in range(h.n):
        if 777000 + rk not in allB:
            fails.append({'what': 'a bag insert issued just before serialize() (item %d) is missing from the image' % (777000 + rk)})
    return fails, []

def copies_check(pid, seed, tier):
    """harness/copies.cpp: copy / move constructors applied to containers with operations in flight."""
    exe, err = compile_sim('copies', ['harness/copies.cpp'])
    if exe is None:
        return [{'what': 'harness/copies.cpp does not compile against the current headers', 'log': err[-1500:]}], 0
    want_kinds = {'C11': ['map_copy', 'multimap_copy'], 'C12': ['set_move', 'vector_growth'], 'C13': ['array_copy'], 'C14': ['bag_copy'], 'C15': ['counting_set_copy'],
                  'C17': ['disjoint_set_copy']}[pid]
    cfgs = [(2, 2, 'uniform', 16384, 'NONE', 10), (3, 1, 'late', 1, 'NR', 25), (4, 2, 'starve', 0, 'NLNR', 6)]
    if tier != 'quick':
        cfgs += [(n, p, pol, kb, rt, 40) for (n, p) in ((1, 1), (5, 5), (6, 2), (8, 4)) for pol in ('uniform', 'early', 'delayreduce') for kb, rt in ((16384, 'NONE'), (1, 'NLNR'))]
    fails, nobs = [], 0
    for i, (n, ppn, pol, kb, rt, K) in enumerate(cfgs):
        r = simrun(exe, n, [K], ppn=ppn, seed=seed * 53 + i, policy=pol, wall=60, env={'YGM_COMM_BUFFER_SIZE_KB': kb, 'YGM_COMM_ROUTING': rt})
        if r['verdict'] != 'ok':
            fails.append({'what': 'copy / move constructor run on %d ranks ended with %s %s' % (n, r['verdict'], r['detail']), 'cmd': r['cmd']})
            continue
        got = {}
        for l in r['out']:
            if l.startswith('CP '):
                head, rest = l.split(' :', 1)
                new, _, orig = rest.partition('|')
                kind = head.split()[1]
                got.setdefault(kind, [[], []])
                got[kind][0] += new.split(); got[kind][1] += orig.split()
        want = {'set_move': sorted(str(i * n + rk) for rk in range(n) for i in range(K)),
                'vector_growth': sorted(str(i % 3 + 10 * rk) for rk in range(n) for i in range(K)),
                'map_copy': sorted('%d=%d' % (i * n + rk, 100 + i) for rk in range(n) for i in range(K)),
                'multimap_copy': sorted('%d=%d' % (i % 4, 1000 * rk + i) for rk in range(n) for i in range(K)),
                'bag_copy': sorted([str(i * n + rk) for rk in range(n) for i in range(K)] + [str(100000 + i * n + rk) for rk in range(n) for i in range(K)]),
                'counting_set_copy': sorted(['%d=%d' % (k, n * len([i for i in range(K) if i % 5 == k])) for k in range(5) if k < K] +
                                            ['%d=%d' % (100 + k, n * len([i for i in range(K) if i % 3 == k])) for k in range(3) if k < K]),
                'disjoint_set_copy': sorted(str(10 * rk + j) for rk in range(n) for j in range(3)),
                'array_copy': sorted('%d=%d' % (i, 5 + sum(10 * (rk + 1) + i for rk in range(n))) for i in range(2 * n + 1))}
        for kind in want_kinds:
            nobs += 1
            g = got.get(kind)
            if g is None:
                fails.append({'what': 'copies harness printed no %s line on %d ranks' % (kind, n), 'cmd': r['cmd']}); continue
            if sorted(g[0]) != want[kind]:
                fails.append({'what': '%s on %d ranks: operations issued before the new object was made are missing from it after the next barrier: it holds %d entries %s, issued %d %s' % (
                    kind, n, len(g[0]), sorted(g[0])[:8], len(want[kind]), want[kind][:8]), 'cmd': r['cmd']})
            elif kind in ('bag_copy', 'counting_set_copy', 'disjoint_set_copy'):
                orig = {'bag_copy': sorted(str(i * n + rk) for rk in range(n) for i in range(K)),
                        'counting_set_copy': sorted('%d=%d' % (k, n * len([i for i in range(K) if i % 5 == k])) for k in range(5) if k < K),
                        'disjoint_set_copy': sorted(str(10 * rk + j) for rk in range(n) for j in range(2))}[kind]
                if sorted(g[1]) != orig:
                    fails.append({'what': '%s on %d ranks: operations issued on the copy changed the original: it holds %s, issued on it %s' % (kind, n, sorted(g[1])[:10], orig[:10]), 'cmd': r['cmd']})
            elif kind.endswith('_copy') and sorted(g[1]) != want[kind]:
                fails.append({'what': '%s on %d ranks: the original holds %d entries after the barrier, issued %d' % (kind, n, len(g[1]), len(want[kind])), 'cmd': r['cmd']})
    return fails, nobs

ORACLES = {'C11': oracle_c11, 'C12': oracle_c12, 'C13': oracle_c13, 'C14': oracle_c14, 'C15': oracle_c15, 'C16': oracle_c16, 'C20': oracle_c20}

def evaluate(pid, seed, tier):
    """Run the history suite and the oracle of one property.  Returns dict for run_check's tie."""
    hs = gen_suite(seed, tier)
    runs = run_many(hs)
    fails, cases, nontriv = [], [], 0
    for h, r in zip(hs, runs):
        if r['verdict'] == 'build':
            return {'ok': False, 'msg': 'containers harness does not compile', 'failures': [{'what': 'containers harness does not compile against the current headers', 'log': r['detail']}]}
        if r['verdict'] != 'ok':
            fails.append({'what': 'run ended with %s %s' % (r['verdict'], r['detail']), 'history': h.text(), 'cmd': r['cmd'],
                          'states': [l for l in r['lines'] if l.startswith(('STATE', 'EXIT'))][:10]})
            continue
        f, c = ORACLES[pid](h, r)
        for x in f:
            x.setdefault('history', h.text())
            x.setdefault('cmd', r['cmd'])
        fails += f
        for x in c:
            x['history'] = h
        cases += c
    ncopies = 0
    if pid in ('C11', 'C12', 'C13', 'C14', 'C15'):
        cf, ncopies = copies_check(pid, seed, tier)
        fails += cf
    n, bad, err = coq_check_cases(pid.lower(), cases)
    if bad is not None:
        d = show_case(bad)
        d['what'] = 'container %s key %d epoch %d: state %s (visitor calls %s) is not the result of any order of the operations issued' % (
            bad['cont'], bad['key'], bad['epoch'], bad['obs'], bad['tally'])
        d['history'] = bad['history'].text()
        fails.append(d)
    contention = sum(1 for c in cases if len(c['ops']) > 1)
    samples = [show_case(c) for c in cases if len(c['ops']) > 2][:2]
    if not samples and hs:
        samples = [{'history_head': hs[0].text()[:800]}]
    return {'ok': err is None, 'msg': err, 'failures': fails, 'validated': n, 'evaluations': len(hs), 'nontrivial': len({h.text() for h in hs}),
            'rule': 'seeded multi-rank histories (2-4 epochs, key contention, colliding cache slots, handler-side inserts) on the real containers under simmpi; every history text is distinct',
            'samples': samples, 'kind': 'history',
            'extra': {'cases_checked_in_coq': n, 'cases_with_contention': contention, 'copy_or_move_constructions_with_operations_in_flight': ncopies,
                      'layouts': sorted({'%dx%d' % (h.n // h.ppn, h.ppn) for h in hs}), 'capacities_kb': sorted({h.bufkb for h in hs}),
                      'ops_total': sum(len(h.ops) for h in hs)},
            'replay': 'write the history text to a file and run: simmpi/simrun <options from the cmd field> -- containers <file> <outdir>'}
