from . import core
def run(tier, seed, replay=None):
    return core.run('C02', tier, seed, replay)
