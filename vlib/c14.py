"""C14 — bags conserve items; rebalance evens them out (DESIGN §5 C14)."""
from . import *
from . import partition as P
from . import containers as CT
from . import bags as BG

def run(tier, seed, replay=None):
    maxT = 14 if tier == 'quick' else 40
    sizes = [1, 2, 3, 4, 5, 7] if tier == 'quick' else list(range(1, 11))
    def tie(res):
        lines, probs = P.run_mode('bag', maxT, sizes, seed)
        fails = list(probs)
        n = nt = nrows = 0
        msg = None
        samples = []
        if lines:
            B, G = P.parse_bag(lines)
            n, nt, f = P.oracle_bag(B, G, maxT)
            fails += f
            if not fails:
                nrows, msg = P.coq_rebalance_table(B, maxT)
            for k in [(4, r, 2, 0) for r in range(4)]:
                if k in B:
                    samples.append({'R': 4, 'rank': k[1], 'T': 2, 'placement': 'all on rank 0', 'before': B[k][0], 'after': B[k][1]})
        ct = CT.evaluate('C14', seed, tier)
        fails += ct.get('failures', [])
        if ct.get('msg') and msg is None:
            msg = ct['msg']
        nrows += ct.get('validated', 0)
        hist_extra = ct.get('extra', {})
        bg = BG.evaluate(seed, 64 if tier == 'quick' else 1500, tag=tier[0])
        fails += bg.get('failures', [])
        if bg.get('msg') and msg is None:
            msg = bg['msg']
        nrows += bg.get('validated', 0)
        hist_extra = dict(hist_extra, two_bag_and_tagged_bag_histories=bg.get('stats', {}), two_bag_sample=bg.get('sample', ''))
        return {'extra': {'histories': ct.get('evaluations', 0), 'history_cases_checked_in_coq': ct.get('validated', 0), 'history_details': hist_extra}, 'ok': msg is None and not fails, 'msg': msg, 'failures': fails, 'validated': nrows,
                'evaluations': n, 'nontrivial': nt, 'exhaustive': True,
                'rule': 'every (R in %s, total 0..%d, 4 placements: all on rank 0 / all on last rank / round robin / scattered): insert, rebalance, gather; non-trivial: total not divisible by R or < R' % (sizes, maxT),
                'samples': samples,
                'tie': 'D: coq/Bag.v (two bags, two tagged bags: inserts, rebalance, shuffles, clear, swap, erase, visit) evaluated by vm_compute on the histories harness/bags.cpp ran on the real containers: returned tags, per-rank and global contents, visits compared. T: Gen_rebalance.v regenerated from bag.ipp (target-rank loop of rebalance) and re-proved (Gen_rebalance_correct); the per-rank final counts predicted by the generated loop are compared in Coq with the real rebalance',
                'replay': 'simmpi/simrun -n R -- partition_enum bag %d' % maxT}
    def search():
        lines, probs = P.run_mode('bag', 30, list(range(1, 13)), seed + 100)
        if probs:
            return probs
        B, G = P.parse_bag(lines)
        f = P.oracle_bag(B, G, 30)[2]
        if not f:
            f = BG.evaluate(seed + 31, 200, tag='s').get('failures', [])
        return f
    return run_check('C14', tier, seed, 'Properties_C14.v', ['Gen_rebalance'], tie, search,
                     trusted=['tools/cxx2coq.py + coq/Gen/CArith.v', 'simmpi as the MPI under the harness',
                              'which items move (local_pop takes from the back) is irrelevant to the counts and is not modelled',
                              'coq/Bag.v is a hand-written model of bag.ipp / tagged_bag.hpp, tied by the differential histories; the order of items inside a rank and the destinations drawn by global_shuffle are not compared (multisets are)'],
                     assumptions=['T < 2^62, R < 2^31'])
