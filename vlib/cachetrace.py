"""C15 / C16: replay of the real write-combining caches against coq/Cache.v.

harness/containers.cpp (VERIF_CTRACE=1) prints, per rank and in program order,
   CT <rank> M C <k>                    a main-context counting_set insert begins
   CT <rank> H C <k> <key> <count>      a handler-context insert happened; the touched slot afterwards (count -1: empty)
   CT <rank> E C <key> <count>          the main-context insert returned; its slot
   CT <rank> M R <k> <v> / H R <k> <v> <key> <value> <occ> / E R <key> <value> <occ>     the same for the reducing adapter over RM
   CT <rank> BB                         the epoch's barrier() is entered; until BE (barrier, dumps, collective queries, each with barriers
                                        inside) the pre-barrier callback may flush any slot at any time
   CT <rank> BE                         the next epoch's operations start: no barrier runs on this rank until the next BB
Handler-context lines between an M and its E are the re-entry of that operation's eviction send.  Cache.contribute /
contribute_inner are evaluated by vm_compute on exactly these sequences and must reproduce every observed slot.  Between BB and
BE a slot may have been emptied by flush_all before an operation (both possibilities are tried); at BE every slot not touched since
BB is empty (the barrier ran the flush), a touched one may have been flushed after its last operation (tried at its next use).
The reducing adapter is traced on single-node layouts only (on several nodes intermediate ranks combine inside library
lambdas that the harness does not see).
"""
import re
from . import *

NSLOTS = 1024 * 1024

def items_of(lines, n_ranks, which):
    """per rank: list of Coq citem terms for cache `which` ('C' or 'R')"""
    per = {r: [] for r in range(n_ranks)}
    pending = {r: None for r in range(n_ranks)}      # (k, v, [re])
    inbar = {r: False for r in range(n_ranks)}
    stats = {'main': 0, 'handler': 0, 'reentrant': 0, 'in_barrier_phase': 0}
    def obs(tok):
        if which == 'C':
            key, cnt = int(tok[0]), int(tok[1])
            return 'None' if cnt == -1 else '(Some (%d, %d))' % (key, cnt)
        key, val, occ = int(tok[0]), int(tok[1]), int(tok[2])
        return '(Some (%d, %d))' % (key, val) if occ else 'None'
    for l in lines:
        if not l.startswith('CT '):
            continue
        t = l.split()
        r, kind = int(t[1]), t[2]
        if kind == 'BB':
            if pending[r] is not None:
                return None, 'rank %d: barrier entered inside a main-context cache operation' % r, stats
            inbar[r] = True
            per[r].append('CBB')
            continue
        if kind == 'BE':
            if inbar[r]:
                per[r].append('CBE')
            inbar[r] = False
            continue
        if t[3] != which:
            continue
        a = t[4:]
        if kind == 'M':
            k, v = (int(a[0]), 1) if which == 'C' else (int(a[0]), int(a[1]))
            pending[r] = (k, v, [])
            stats['main'] += 1
        elif kind == 'H':
            if which == 'C':
                k, v, o = int(a[0]), 1, obs(a[1:3])
            else:
                k, v, o = int(a[0]), int(a[1]), obs(a[2:5])
            stats['handler'] += 1
            if pending[r] is not None:
                pending[r][2].append('(%d, %d, %s)' % (k, v, o)); stats['reentrant'] += 1
            else:
                if inbar[r]:
                    stats['in_barrier_phase'] += 1
                per[r].append('CH (%d) (%d) %s' % (k, v, o))
        elif kind == 'E':
            if pending[r] is None:
                return None, 'rank %d: E without M' % r, stats
            k, v, re_ = pending[r]
            per[r].append('CM (%d) (%d) %s [%s]' % (k, v, obs(a), '; '.join(re_)))
            pending[r] = None
    return per, None, stats

COQ = '''From Coq Require Import ZArith List Bool. Import ListNotations.
From Ygm Require Import Cache.
Local Open Scope Z_scope.
Inductive citem := CM (k v : Z) (obs : option (Z * Z)) (re : list (Z * Z * option (Z * Z))) | CH (k v : Z) (obs : option (Z * Z)) | CBB | CBE.
Definition oeq (a b : option (Z * Z)) := match a, b with None, None => true | Some (k, v), Some (k2, v2) => (k =? k2) && (v =? v2) | _, _ => false end.
Definition mem (x : Z) (l : list Z) := existsb (Z.eqb x) l.
Definition remove (x : Z) (l : list Z) := filter (fun y => negb (y =? x)) l.
(* the handler contributions that re-enter an eviction send, one by one; a slot in [unc] may have been flushed since its last
   observed operation (both possibilities are tried) *)
Fixpoint inner (n : Z) (re : list (Z * Z * option (Z * Z))) (c : cst) (unc : list Z) : option (cst * list Z) :=
  match re with
  | [] => Some (c, unc)
  | (k, v, obs) :: t =>
      let s := slot_of n k in
      let c' := contribute_inner n (k, v) c in
      if oeq (slots c' s) obs then inner n t c' (remove s unc)
      else if mem s unc then
        let c'' := contribute_inner n (k, v) (set_slot s None c) in
        if oeq (slots c'' s) obs then inner n t c'' (remove s unc) else None
      else None
  end.
(* one main-context operation with its re-entry; contribute n kv re c = fold_left contribute_inner re (contribute n kv [] c) when the
   contribution evicts (Cache.contribute_split); without an eviction nothing is sent, so nothing can re-enter *)
Definition do_main (n k v : Z) (obs : option (Z * Z)) (re : list (Z * Z * option (Z * Z))) (c : cst) (unc : list Z) : option (cst * list Z) :=
  let c1 := contribute n (k, v) [] c in
  if negb (evicts n (k, v) c) && negb (match re with [] => true | _ => false end) then None else
  match inner n re c1 unc with
  | Some (c2, unc2) => if oeq (slots c2 (slot_of n k)) obs then Some (c2, unc2) else None
  | None => None
  end.
Definition do_handler (n k v : Z) (obs : option (Z * Z)) (c : cst) : option cst :=
  let c' := contribute_inner n (k, v) c in if oeq (slots c' (slot_of n k)) obs then Some c' else None.
(* state: the model cache; phase = inside BB..BE; unc = slots that flush_all may have emptied since their last observed operation;
   touched = slots operated on since BB *)
Fixpoint ccheck (n : Z) (l : list citem) (c : cst) (phase : bool) (unc touched : list Z) (i : nat) : option nat :=
  match l with
  | [] => None
  | CBB :: t => ccheck n t c true unc [] (S i)
  | CBE :: t =>
      ccheck n t {| slots := fun s => if mem s touched then slots c s else None; sent := sent c |} false touched [] (S i)
  | CM k v obs re :: t =>
      let s := slot_of n k in
      match do_main n k v obs re c (remove s unc) with
      | Some (c', unc') => ccheck n t c' phase unc' touched (S i)
      | None =>
          if phase || mem s unc then
            match do_main n k v obs re (set_slot s None c) (remove s unc) with
            | Some (c', unc') => ccheck n t c' phase unc' touched (S i)
            | None => Some i
            end
          else Some i
      end
  | CH k v obs :: t =>
      let s := slot_of n k in
      let touched' := if phase then s :: touched else touched in
      match do_handler n k v obs c with
      | Some c' => ccheck n t c' phase (remove s unc) touched' (S i)
      | None =>
          if phase || mem s unc then
            match do_handler n k v obs (set_slot s None c) with
            | Some c' => ccheck n t c' phase (remove s unc) touched' (S i)
            | None => Some i
            end
          else Some i
      end
  end.
Definition cases : list (list citem) := [
%s
].
Definition results := map (fun l => ccheck %d l {| slots := fun _ => None; sent := [] |} false [] [] 0) cases.
Definition bad := filter (fun '(i, r) => match r with None => false | _ => true end) (combine (seq 0 (length cases)) results).
Eval vm_compute in (length cases, bad).
'''

def check(pid, hs, runs, tag):
    """hs, runs: histories and their (traced) runs.  Returns dict(validated, failures, msg, stats)."""
    which = 'C' if pid == 'C15' else 'R'
    cases, owner, fails = [], [], []
    tot = {'main': 0, 'handler': 0, 'reentrant': 0, 'in_barrier_phase': 0}
    for h, r in zip(hs, runs):
        if r.get('verdict') != 'ok':
            continue
        if which == 'R' and h.n != h.ppn:
            continue
        per, err, st = items_of(r['lines'], h.n, which)
        for k in tot:
            tot[k] += st[k]
        if err:
            fails.append({'what': 'cache trace malformed: ' + err, 'history': h.text(), 'cmd': r.get('cmd'), 'level': 'model'})
            continue
        for rk, items in per.items():
            if any(i.startswith(('CM', 'CH')) for i in items):
                cases.append('[%s]' % ';\n  '.join(items)); owner.append((h, r, rk, items))
    if not cases:
        return {'validated': 0, 'failures': fails, 'msg': None, 'stats': tot}
    rc, out = coq_eval('cache_%s_%s' % (pid.lower(), tag), COQ % (';\n'.join(cases), NSLOTS))
    flat = ' '.join(out.split()).replace('%nat', '')
    m = re.search(r'= \((\d+), (\[.*?\])\) : nat \*', flat)
    if rc != 0 or not m:
        return {'validated': 0, 'failures': fails, 'msg': 'Cache.v could not be evaluated on the recorded cache traces: ' + out[-800:], 'stats': tot}
    bad = [(int(a), int(b)) for a, b in re.findall(r'\((\d+), Some (\d+)\)', m.group(2))]
    for ci, ii in bad[:5]:
        h, r, rk, items = owner[ci]
        fails.append({'what': 'the %s cache of rank %d and Cache.v disagree at cache operation #%d: %s' % (
                          'counting_set' if which == 'C' else 'reducing_adapter', rk, ii, items[ii][:200]),
                      'history': h.text(), 'cmd': r.get('cmd'), 'trace_head': items[max(0, ii - 3):ii + 1], 'level': 'model'})
    return {'validated': len(cases) - len(bad), 'failures': fails, 'msg': None, 'stats': dict(tot, rank_traces=len(cases))}
