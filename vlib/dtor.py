"""C02, container destructors: harness/dtor.cpp under simmpi.  A handler that runs on a rank after a container's destructor has
returned there (before anything else was issued) belongs to work issued before the destructor's implicit barrier."""
from . import *

KINDS = ['map', 'multimap', 'set', 'multiset', 'bag', 'array', 'array_small', 'array_empty', 'counting_set', 'disjoint_set']

def explore(seed, tier):
    exe, err = compile_sim('dtor', ['harness/dtor.cpp'])
    if exe is None:
        return [{'what': 'dtor harness does not compile against the current headers', 'log': err[-1500:]}], 0
    cfgs = [(3, 3, 'uniform', 16384, 'NONE'), (4, 2, 'late', 1, 'NR'), (2, 2, 'early', 0, 'NONE'), (6, 3, 'delayreduce', 16384, 'NLNR'), (5, 1, 'starve', 16384, 'NR')]
    if tier != 'quick':
        cfgs = cfgs + [(n, p, pol, kb, rt) for (n, p) in ((1, 1), (8, 2), (7, 7), (9, 3)) for pol in ('uniform', 'late') for kb, rt in ((16384, 'NONE'), (1, 'NLNR'))]
    fails, nobs = [], 0
    for i, (n, ppn, pol, kb, rt) in enumerate(cfgs):
        s = seed * 131 + i
        r = simrun(exe, n, [s], ppn=ppn, seed=s, policy=pol, wall=120, env={'YGM_COMM_BUFFER_SIZE_KB': kb, 'YGM_COMM_ROUTING': rt})
        if r['verdict'] != 'ok':
            fails.append({'what': 'container destructor run on %d ranks ended with %s %s' % (n, r['verdict'], r['detail']), 'cmd': r['cmd'],
                          'states': [l for l in r['out'] if l.startswith(('STATE', 'EXIT'))][:8]})
            continue
        seen = set()
        for l in r['out']:
            if not l.startswith('D '):
                continue
            t = l.split()
            kind, rk, at_ret, after = t[1], int(t[2]), int(t[3]), int(t[4])
            seen.add((kind, rk)); nobs += 1
            if after != at_ret:
                fails.append({'what': 'destructor of %s returned on rank %d of %d while %d handler(s) of operations issued before it had not run (they ran during the next barrier)' % (kind, rk, n, after - at_ret),
                              'cmd': r['cmd']})
        if len(seen) != len(KINDS) * n:
            fails.append({'what': 'dtor harness reported %d of %d observations' % (len(seen), len(KINDS) * n), 'cmd': r['cmd']})
    return fails, nobs
