"""C17 — disjoint_set connectivity equals the union graph; merges are reported once (DESIGN §5 C17)."""
import os, random, re, shutil, hashlib, json
from . import *
from .traffic import LAYOUTS, ROUTINGS, POLICIES, RUNS

def gen_graph(rng, idx):
    n, ppn = rng.choice([(1, 1), (2, 2), (3, 1), (4, 2), (4, 4), (6, 3), (5, 1), (8, 2)])
    cb = idx % 3          # 0: async_union only, 1: async_union_and_execute only, 2: both kinds on one container
    epochs = rng.choice([1, 2, 3])
    edges = []
    base = rng.choice([0, 1000])
    nitems = rng.choice([6, 15, 40, 80])
    for e in range(1, epochs + 1):
        kind = rng.choice(['chain', 'chain', 'clique', 'star', 'random', 'dups', 'tree'])
        items = [base + rng.randrange(nitems) for _ in range(rng.choice([4, 10, 30]))]
        es = []
        if kind == 'chain':
            start = base + rng.randrange(nitems)
            L = rng.choice([5, 20, 45])
            es = [(start + i, start + i + 1) for i in range(L)]
            if rng.random() < 0.5:
                rng.shuffle(es)
        elif kind == 'clique':
            c = items[:6]
            es = [(a, b) for a in c for b in c if a < b]
        elif kind == 'star':
            es = [(items[0], x) for x in items[1:]]
        elif kind == 'tree':
            es = [(base + i, base + (i - 1) // 2) for i in range(1, rng.choice([7, 15, 31]))]
        elif kind == 'dups':
            a, b = items[0], items[1]
            es = [(a, b), (b, a), (a, b), (a, a), (b, b)] + [(x, x) for x in items[2:5]]
        else:
            es = [(rng.choice(items), rng.choice(items)) for _ in range(len(items))]
        if not es:
            es = [(base, base + 1)]          # (a clique over equal items, a random graph of self-loops only: keep one edge)
        for a, b in es:
            issuers = [rng.randrange(n)] if rng.random() < 0.7 else list(range(n))[:rng.choice([2, n])]   # the same edge from several ranks
            for r in issuers:
                edges.append((e, r, a, b, cb if cb < 2 else ((1 if e > 1 else 0) if rng.random() < 0.7 else rng.randrange(2))))
    return {'n': n, 'ppn': ppn, 'routing': rng.choice(ROUTINGS), 'bufkb': rng.choice([0, 1, 16384]), 'policy': rng.choice(POLICIES),
            'seed': rng.randrange(1, 1 << 30), 'cb': cb, 'epochs': epochs, 'edges': edges}

def text_of(g):
    return '# n=%(n)d ppn=%(ppn)d routing=%(routing)s bufkb=%(bufkb)d policy=%(policy)s seed=%(seed)d cb=%(cb)d\n' % g + \
           ''.join('u %d %d %d %d %d\n' % e for e in g['edges'])

class UF:
    def __init__(self):
        self.p = {}
    def find(self, x):
        self.p.setdefault(x, x)
        while self.p[x] != x:
            self.p[x] = self.p[self.p[x]]
            x = self.p[x]
        return x
    def union(self, a, b):
        ra, rb = self.find(a), self.find(b)
        if ra != rb:
            self.p[ra] = rb
            return True
        return False

def run_graph(g):
    exe, err = compile_sim('disjoint', ['harness/disjoint.cpp'])
    if exe is None:
        return {'verdict': 'build', 'detail': err[-1500:], 'lines': []}
    t = text_of(g)
    key = hashlib.sha256((os.path.basename(exe) + t).encode()).hexdigest()[:20]
    cache = os.path.join(RUNS, 'ds-' + key + '.json')
    if os.path.exists(cache):
        try:
            return json.load(open(cache))
        except Exception:
            pass
    d = os.path.join(RUNS, 'ds-' + key)
    os.makedirs(d, exist_ok=True)
    p = os.path.join(d, 'edges.txt')
    open(p, 'w').write(t)
    r = simrun(exe, g['n'], [p], ppn=g['ppn'], seed=g['seed'], policy=g['policy'], wall=60, spin=400000,
               env={'YGM_COMM_ROUTING': g['routing'], 'YGM_COMM_BUFFER_SIZE_KB': g['bufkb'], 'YGM_COMM_IRECV_SIZE_KB': 4096, 'VERIF_DSTRACE': 1})
    out = {'verdict': r['verdict'], 'detail': r['detail'], 'lines': r['out'], 'cmd': r['cmd']}
    shutil.rmtree(d, ignore_errors=True)
    json.dump(out, open(cache, 'w'))
    return out

def oracle(g, r):
    fails = []
    def F(what, **kw):
        d = {'what': what, 'graph': text_of(g), 'cmd': r.get('cmd', '')}
        d.update(kw)
        fails.append(d)
    if r['verdict'] != 'ok':
        F('run ended with %s %s' % (r['verdict'], r['detail']), states=[l for l in r['lines'] if l.startswith(('STATE', 'EXIT'))][:8])
        return fails, {}
    P, P2, CB, Fd, NS, A = {}, {}, {}, {}, {}, {}
    for l in r['lines']:
        m = re.match(r'(P2|P|CB|F|NS|A) (\d+) (\d+) :(.*)', l)
        if not m:
            continue
        tag, e, rk, rest = m.group(1), int(m.group(2)), int(m.group(3)), m.group(4).split()
        {'P': P, 'P2': P2, 'CB': CB, 'F': Fd, 'NS': NS, 'A': A}[tag][(e, rk)] = rest
    uf = UF()
    items = set()
    cb_edges = []
    stats = {'items': 0, 'max_rank': 0, 'max_depth': 0}
    for e in range(1, g['epochs'] + 1):
        issued = set()
        for (ep, rk, a, b, cb) in g['edges']:
            if ep == e:
                uf.union(a, b); items.add(a); items.add(b); issued.add((a, b))
        comps = len({uf.find(x) for x in items})
        # raw structure
        par, rank = {}, {}
        for rk in range(g['n']):
            for tok in P.get((e, rk), []):
                it, rr, pp, ow = map(int, tok.split(','))
                if it in par:
                    F('item %d is stored on two ranks' % it, epoch=e)
                if ow != rk:
                    F('item %d is stored on rank %d, its owner is %d' % (it, rk, ow), epoch=e)
                par[it], rank[it] = pp, rr
        if set(par) != items:
            F('epoch %d: stored items %s, items that appeared in unions %s' % (e, sorted(set(par) ^ items)[:8], len(items)), epoch=e)
            continue
        def root(x):
            seen = 0
            while par[x] != x:
                x = par[x]; seen += 1
                if seen > len(par) + 1:
                    return None
            return x
        roots = {}
        for x in items:
            if par[x] not in par:
                F('parent of item %d is %d, which is not an item' % (x, par[x]), epoch=e); break
            rt = root(x)
            if rt is None:
                F('the parent structure has a cycle through item %d (lookups would not terminate)' % x, epoch=e); break
            roots[x] = rt
            if par[x] != x and not ((rank[x], x) < (rank[par[x]], par[x])):
                F('item %d (rank %d) has parent %d (rank %d): (rank, item) does not increase towards the root (the invariant of the model DisjointSet.Inv does not hold on the real structure)' % (x, rank[x], par[x], rank[par[x]]), epoch=e, level='model')
        if len(roots) != len(items):
            continue
        stats['items'] = len(items); stats['max_rank'] = max(stats['max_rank'], max(rank.values(), default=0))
        for x in items:
            for y in (uf.find(x),):
                pass
        byroot = {}
        for x in items:
            byroot.setdefault(roots[x], set()).add(x)
        bycomp = {}
        for x in items:
            bycomp.setdefault(uf.find(x), set()).add(x)
        if sorted(map(sorted, byroot.values())) != sorted(map(sorted, bycomp.values())):
            F('epoch %d: the sets of the parent structure differ from the connected components of the unions issued' % e, epoch=e,
              structure=sorted(map(sorted, byroot.values()))[:6], components=sorted(map(sorted, bycomp.values()))[:6])
        for rk in range(g['n']):
            ns = NS.get((e, rk), ['?', '?'])
            if ns != [str(comps), str(len(items))]:
                F('num_sets / size on rank %d after epoch %d are %s, components %d items %d' % (rk, e, ns, comps, len(items)), epoch=e); break
            reps = dict(map(int, t.split(',')) for t in Fd.get((e, rk), []))
            if set(reps) != items:
                F('all_find on rank %d returned %d items of %d' % (rk, len(reps), len(items)), epoch=e); break
            for x in items:
                if reps[x] not in bycomp[uf.find(x)]:
                    F('all_find(%d) = %d which is not in the set of %d' % (x, reps[x], x), epoch=e); break
            groups = {}
            for x in items:
                groups.setdefault(reps[x], set()).add(x)
            if sorted(map(sorted, groups.values())) != sorted(map(sorted, bycomp.values())):
                F('all_find on rank %d: equal representatives do not coincide with connectivity' % rk, epoch=e); break
        fa = {}
        for rk in range(g['n']):
            for tok in A.get((e, rk), []):
                it, rep = map(int, tok.split(','))
                fa[it] = rep
        if set(fa) != items:
            F('for_all presented %d items of %d' % (len(fa), len(items)), epoch=e)
        else:
            groups = {}
            for x in items:
                groups.setdefault(fa[x], set()).add(x)
            if sorted(map(sorted, groups.values())) != sorted(map(sorted, bycomp.values())):
                F('for_all after epoch %d: equal representatives do not coincide with connectivity' % e, epoch=e,
                  example=[(x, fa[x]) for x in sorted(items)][:12])
            for x in items:
                if fa[fa[x]] != fa[x]:
                    F('for_all: representative %d of item %d is not its own representative' % (fa[x], x), epoch=e); break
        got_cb = []
        for rk in range(g['n']):
            got_cb += [tuple(map(int, t.split(','))) for t in CB.get((e, rk), [])]
        if g['cb']:
            cb_edges += got_cb
            issued_cb = {(a, b) for (ep, rk, a, b, c) in g['edges'] if ep == e and c}
            for ab in got_cb:
                if ab not in issued_cb:
                    F('callback reported (%d,%d), which was not issued in epoch %d' % (ab[0], ab[1], e), epoch=e); break
            t = UF()
            for a, b in cb_edges:
                if not t.union(a, b):
                    F('callback edges contain a cycle: (%d,%d) joined two items that a reported merge had already joined' % (a, b), epoch=e); break
            # (with both kinds of union on one container the plain ones merge without reporting: the exact callbacks are then
            # decided by the replay of the recorded visits against DisjointLocal.lcb)
            if g['cb'] == 1 and len(cb_edges) != len(items) - comps:
                F('%d merge callbacks so far, %d items in %d components need exactly %d' % (len(cb_edges), len(items), comps, len(items) - comps), epoch=e)
        elif got_cb:
            F('callbacks ran although async_union was used', epoch=e)
    # clear() and immediate reuse
    pc, nsc = {}, {}
    for l in r['lines']:
        m = re.match(r'(PC|NSC) (\d+) :(.*)', l)
        if m:
            (pc if m.group(1) == 'PC' else nsc)[int(m.group(2))] = m.group(3).split()
    if len(pc) == g['n']:
        par = {}
        for rk, toks in pc.items():
            for tok in toks:
                it, rr, pp = map(int, tok.split(','))
                par[it] = pp
        want_items = {500000 + k for k in range(g['n'])} | {600000 + k for k in range(g['n'])}
        if set(par) != want_items:
            F('after clear() followed at once by two unions per rank the container holds %d items (%s ...), the unions issued name %d' % (len(par), sorted(set(par) ^ want_items)[:6], len(want_items)))
        else:
            def rootc(x):
                seen = 0
                while par[x] != x and seen <= len(par):
                    x = par[x]; seen += 1
                return x
            if len({rootc(x) for x in par}) != 1:
                F('after clear() followed at once by a ring of unions the items form %d sets, the unions issued connect them all' % len({rootc(x) for x in par}))
        for rk, toks in nsc.items():
            if toks != ['1', str(2 * g['n'])]:
                F('num_sets / size after clear() and reuse are %s on rank %d, expected 1 and %d' % (toks, rk, 2 * g['n'])); break
        # all_find with items that never appeared in a union
        known = {500000 + k for k in range(g['n'])} | {600000 + k for k in range(g['n'])}
        for l in r['lines']:
            m = re.match(r'FU (\d+) :(.*)', l)
            if not m:
                continue
            rk = int(m.group(1))
            reps = dict(map(int, t.split(',')) for t in m.group(2).split())
            want_keys = {500000 + rk, 600000 + rk, 910001, 910002, 920000 + rk}
            if set(reps) != want_keys:
                F('all_find of %s on rank %d answered for %s' % (sorted(want_keys), rk, sorted(reps))); break
            bad = [x for x in (910001, 910002, 920000 + rk) if reps[x] != x]
            if bad:
                F('all_find on rank %d: item %d never appeared in a union, so it is a set of its own, but its representative is %d' % (rk, bad[0], reps[bad[0]])); break
            if reps[500000 + rk] != reps[600000 + rk] or reps[500000 + rk] not in known:
                F('all_find on rank %d: %d and %d are connected, representatives %d and %d' % (rk, 500000 + rk, 600000 + rk, reps[500000 + rk], reps[600000 + rk])); break
    elif r['verdict'] == 'ok':
        F('no output of the clear-and-reuse phase')
    return fails, stats

def run(tier, seed, replay=None):
    def explore(seed_, count):
        rng = random.Random(seed_ * 6007 + 11)
        gs = [gen_graph(rng, i) for i in range(count)]
        import concurrent.futures
        with concurrent.futures.ThreadPoolExecutor(max_workers=NCPU) as ex:
            rs = list(ex.map(run_graph, gs))
        fails, stats = [], []
        for g, r in zip(gs, rs):
            f, st = oracle(g, r)
            fails += f
            stats.append(st)
        from . import dstrace
        tr = dstrace.check(gs, rs, 'c17_%s_%d' % (tier, seed_))
        fails += tr['failures']
        return gs, fails, stats, tr
    def tie(res):
        gs, fails, stats, tr = explore(seed, 48 if tier == 'quick' else 800)
        from . import containers as CT
        cf, ncopies = CT.copies_check('C17', seed, tier)
        fails = fails + cf
        return {'ok': tr['msg'] is None, 'msg': tr['msg'], 'failures': fails, 'validated': len(gs), 'evaluations': len(gs),
                'nontrivial': sum(1 for s in stats if s.get('items', 0) >= 10),
                'rule': 'generated union multigraphs (long chains, binary trees, cliques, stars, random, duplicates and self-loops, the same edge issued by several ranks), 1-3 epochs, both async_union and async_union_and_execute, on 1-8 ranks under adversarial simmpi schedules; non-trivial: at least 10 items',
                'samples': [{'config': text_of(gs[0]).split('\n')[0], 'edges': gs[0]['edges'][:8]}],
                'tie': 'D: every visit of the walk protocol executed by the real container (entry before / after, arguments; hook ds_visit) is replayed against DisjointLocal.lexec by vm_compute, and per epoch the multiset of executed visits must equal the unions issued plus the visits the model sends (DisjointLocal.exec_lexec ties lexec to the guarded model the theorems are about); after every epoch the raw parent structure of the real disjoint_set is read from every rank and must satisfy the invariants proved of the model (parents are items, (rank,item) increases towards the root hence acyclic) and coincide with the connected components of a sequential union-find; all_find / for_all / num_sets / size / merge callbacks are compared with it',
                'extra': {'model_replay': {'epochs_replayed_against_DisjointLocal': tr['validated'], 'visits': tr['visits'], 'by_kind': tr['kinds']},
                          'max_rank_seen': max([s.get('max_rank', 0) for s in stats] + [0]), 'edges_total': sum(len(g['edges']) for g in gs)}}
    def search():
        return explore(seed + 17, 96)[1]
    return run_check('C17', tier, seed, 'Properties_C17.v', [], tie, search,
                     trusted=['coq/DisjointSet.v is a hand-written model of the walk protocol of disjoint_set_impl.hpp, executed against every recorded visit of the real container (DisjointLocal.v) and checked through its invariants on the real structure after every epoch',
                              'termination of the walk protocol (every delivery order reaches quiescence) and the spanning-forest property of the merge callbacks are checked by the differential runs, not proved', 'simmpi; harness/disjoint.cpp'],
                     assumptions=['items are totally ordered (operator<) and hashable', 'handlers are atomic and every visit executes exactly once (C01, C02, C08)'])
