"""C18 — line_parser hands out every line of every file exactly once (DESIGN §5 C18)."""
import os, random, re, shutil
from . import *

GRAN = 8 * 1024 * 1024

def filler(n, start):
    # byte i of the line (counted from the line start) is 'a' + (i % 23); the harness re-checks it
    pat = bytes(97 + ((start + i) % 23) for i in range(23))
    return (pat * (n // 23 + 1))[:n]

def make_line(fmt, fid, ln, total_len, newline=True):
    """A line of exactly total_len bytes (including the newline if any) carrying the id f<fid>_<ln>."""
    ident = 'f%d_%d' % (fid, ln)
    body_len = total_len - (1 if newline else 0)
    if fmt == 'lines':
        head = (ident + '|').encode()
        if body_len < len(head):
            return None
        s = head + filler(body_len - len(head), len(head))
    elif fmt == 'csv':
        head = (ident + ',%d,"q,%d",' % (ln, ln % 7)).encode()
        if body_len < len(head) + 1:
            return None
        s = head + b'x' * (body_len - len(head))
    else:
        head = ('{"id":"%s","n":%d,"p":"' % (ident, ln)).encode()
        if body_len < len(head) + 2:
            return None
        s = head + b'y' * (body_len - len(head) - 2) + b'"}'
    return s + (b'\n' if newline else b'')

def carve(sizes, ranks):
    total = sum(sizes)
    if total == 0:
        return []
    per = max(total // ranks + 1, GRAN)
    files = [[i, 0, s] for i, s in enumerate(sizes)]
    out = []
    for r in range(ranks):
        budget = per
        while budget > 0 and files:
            idx, pos, size = files[-1]
            rem = size - pos
            if rem > budget:
                out.append((r, idx, pos, pos + budget))
                files[-1][1] += budget
                budget = 0
            else:
                out.append((r, idx, pos, size))
                budget -= rem
                files.pop()
    return out

def gen_fileset(rng, fmt, ranks, d):
    """Files whose total exceeds the granule, with a line boundary forced at -1 / 0 / +1 of every range boundary."""
    nfiles = rng.choice([1, 1, 2, 3])
    sizes = []
    for i in range(nfiles):
        sizes.append(rng.choice([9, 10, 12, 17]) * 1024 * 1024 // nfiles + rng.randrange(0, 4096))
    huge = ranks >= 3 and rng.random() < 0.3
    if huge:
        # one file with at least two range boundaries and a line that covers a whole rank's range (it contains two
        # consecutive boundaries)
        nfiles, sizes = 1, [26 * 1024 * 1024 + rng.randrange(0, 4096)]
    elif rng.random() < 0.3:
        # a file ending exactly at a budget boundary
        per = max(sum(sizes) // ranks + 1, GRAN)
        sizes[-1] = per if len(sizes) > 1 else sizes[-1]
    bounds = {}
    for r, idx, b, e in carve(sizes, ranks):
        if e < sizes[idx]:
            bounds.setdefault(idx, []).append(e)
    # file names sort like their index (line_parser sorts the paths)
    lens_all, meta = [], []
    minlen = {'lines': 12, 'csv': 30, 'ndjson': 40}[fmt]
    allow_empty = fmt == 'lines' and rng.random() < 0.4
    for fid, size in enumerate(sizes):
        align = 'huge' if huge else rng.choice([-1, 0, 1, 'inside', 'long'])
        lens, pos, ln = [], 0, 0
        targets = sorted(bounds.get(fid, []))
        final_newline = rng.random() < 0.6
        while pos < size:
            nxt = [t for t in targets if t > pos]
            L = rng.choice([minlen, minlen + 1, 60, 700, 3000, 9000]) if fmt != 'lines' else rng.choice([1, 12, 13, 60, 700, 3000, 9000, 20000])
            if fmt == 'lines' and L < minlen:
                L = 1 if (allow_empty and rng.random() < 0.5) else minlen     # empty lines (just a newline)
            if nxt and pos + L + 5000 > nxt[0] >= pos:
                t = nxt[0]
                if align == 'huge' and len(nxt) > 1:
                    L = (nxt[1] - pos) + rng.choice([5000, 1, 0, 100000])      # covers the whole range between two boundaries
                    targets = [x for x in targets if x != nxt[1]]
                elif t - pos < minlen + 2 and align not in ('long', 'inside', 'huge'):
                    L = (t - pos) + 37 + minlen                      # too close: cross the boundary inside this line
                elif align == 'long':
                    L = (t - pos) + rng.choice([GRAN // 2, 5000])          # a very long line across the boundary
                elif align in ('inside', 'huge'):
                    L = (t - pos) + 37
                else:
                    L = (t - pos) + align + 0        # next line starts at t + align
                    if L < minlen:
                        L += 0
                targets = [x for x in targets if x != t]
            if pos + L > size or size - (pos + L) < minlen:
                L = size - pos
            lens.append(L)
            pos += L
        # build the bytes
        chunks = []
        for ln, L in enumerate(lens):
            last = ln == len(lens) - 1
            nl = not (last and not final_newline)
            s = make_line(fmt, fid, ln, L, nl)
            if s is None:
                s = (b'\n' if nl and L == 1 else (b'z' * (L - (1 if nl else 0)) + (b'\n' if nl else b'')))
            chunks.append(s)
        data = b''.join(chunks)
        assert len(data) == size, (len(data), size)
        with open(os.path.join(d, 'file%02d.txt' % fid), 'wb') as fh:
            fh.write(data)
        lens_all.append(lens)
        meta.append({'size': size, 'lines': len(lens), 'final_newline': final_newline, 'align': align, 'boundaries': bounds.get(fid, []),
                     'empty_lines': sum(1 for L in lens if L == 1)})
    return sizes, lens_all, meta

def expected_ids(fmt, data_dir):
    """A sequential read of the files: (id, length) of every line, as std::getline would return them."""
    exp = []
    for fn in sorted(os.listdir(data_dir)):
        raw = open(os.path.join(data_dir, fn), 'rb').read()
        parts = raw.split(b'\n')
        if parts and parts[-1] == b'':
            parts.pop()
        for p in parts:
            if fmt == 'lines':
                bar = p.find(b'|')
                exp.append(((p[:bar].decode() if bar >= 0 else '?') + ':' + str(len(p))))
            elif fmt == 'csv':
                if not p or p[:1] == b'#':
                    continue
                f = p.decode().split(',')
                exp.append(f[0])
            else:
                m = re.match(rb'\{"id":"([^"]+)","n":(\d+)', p)
                exp.append('%s:%s' % (m.group(1).decode(), m.group(2).decode()))
    return exp

def dup_case(seed):
    """The path list reaches files more than once (listed twice, listed next to their directory, files of equal size between the
    copies): every line is still delivered exactly once."""
    d = os.path.join(BUILD, 'io', 'c18-dup-%d' % os.getpid())
    shutil.rmtree(d, ignore_errors=True)
    os.makedirs(os.path.join(d, 'data'))
    try:
        exe, err = compile_sim('io', ['harness/io.cpp'])
        if exe is None:
            return []
        names = ['part_a.txt', 'part_b.txt', 'part_c.txt', 'part_d.txt']
        nlines = [40, 40, 25, 40]                # a, b and d have exactly the same size
        for fid, (nm, k) in enumerate(zip(names, nlines)):
            with open(os.path.join(d, 'data', nm), 'wb') as fh:
                for ln in range(k):
                    fh.write(make_line('lines', fid, ln, 64))
        P = lambda nm: os.path.join(d, 'data', nm)
        fails = []
        for i, (ranks, paths) in enumerate([(1, [P('part_a.txt'), P('part_b.txt'), os.path.join(d, 'data')]), (3, [P('part_a.txt'), P('part_b.txt'), P('part_a.txt')]),
                                            (2, [os.path.join(d, 'data'), P('part_d.txt'), P('part_a.txt'), P('part_b.txt'), P('part_d.txt')])]):
            r = simrun(exe, ranks, ['lines'] + paths, ppn=ranks, seed=seed + i, policy='uniform', wall=60)
            if r['verdict'] != 'ok':
                fails.append({'what': 'line_parser over a path list with repeated files ended with %s %s' % (r['verdict'], r['detail']), 'cmd': r['cmd']}); continue
            got = sorted(t for l in r['out'] if l.startswith('L ') for t in l.split(':', 1)[1].split())
            reach = set()
            for pth in paths:
                reach |= ({os.path.basename(pth)} if os.path.isfile(pth) else set(names))
            want = sorted('f%d_%d:%d' % (fid, ln, 63) for fid, (nm, k) in enumerate(zip(names, nlines)) if nm in reach for ln in range(k))
            if got != want:
                from collections import Counter
                extra = list((Counter(got) - Counter(want)).elements())
                fails.append({'what': 'line_parser over the paths %s on %d ranks delivered %d lines, the files hold %d (delivered more than once: %s)' % (
                    [os.path.basename(x) or 'data/' for x in paths], ranks, len(got), len(want), extra[:4]), 'cmd': r['cmd']})
        return fails
    finally:
        shutil.rmtree(d, ignore_errors=True)

def one_case(rng, idx, tier):
    fmt = ['lines', 'lines', 'csv', 'ndjson'][idx % 4]
    ranks = rng.choice([1, 2, 2, 3, 4, 5, 8])
    d = os.path.join(BUILD, 'io', 'c18-%d-%d' % (os.getpid(), idx))
    shutil.rmtree(d, ignore_errors=True)
    os.makedirs(d)
    try:
        sizes, lens, meta = gen_fileset(rng, fmt, ranks, d)
        exe, err = compile_sim('io', ['harness/io.cpp'])
        if exe is None:
            return {'fails': [{'what': 'io harness does not compile against the current headers', 'log': err[-1500:]}]}
        r = simrun(exe, ranks, [fmt, d], ppn=ranks, seed=idx + 1, policy=['uniform', 'late', 'early'][idx % 3], wall=120, timeout=200)
        case = {'format': fmt, 'ranks': ranks, 'files': meta}
        if r['verdict'] != 'ok':
            return {'fails': [dict(case, what='run ended with %s %s' % (r['verdict'], r['detail']), cmd=r['cmd'])], 'case': case}
        got, per_rank = [], {}
        for l in r['out']:
            if l.startswith('L '):
                head, tail = l.split(':', 1)
                rk = int(head.split()[1])
                toks = tail.split()
                got += toks
                per_rank.setdefault(rk, []).extend(toks)
        exp = expected_ids(fmt, d)
        fails = []
        if fmt == 'csv':
            got = [g if g.count(':') >= 2 else g for g in got]
            got_n = sorted(x.split(':')[0] for x in got)
            exp_n = sorted(x.split(':')[0] for x in exp)
            if got_n != exp_n:
                fails.append(dict(case, what='csv_parser delivered %d records, the files hold %d' % (len(got_n), len(exp_n))))
            bad = [x for x in got if x.split(':')[0].startswith('f') and (x.split(':')[1] != '4' or not x.split(':')[2].startswith('q,'))]
            if bad:
                fails.append(dict(case, what='csv_parser delivered a mis-parsed record: %s' % bad[:3]))
        else:
            if sorted(got) != sorted(exp):
                from collections import Counter
                cg, ce = Counter(got), Counter(exp)
                missing = list((ce - cg).elements())[:5]
                extra = list((cg - ce).elements())[:5]
                fails.append(dict(case, what='%s delivered %d lines, a sequential read gives %d; missing %s, duplicated/extra %s' % (
                    'line_parser' if fmt == 'lines' else 'ndjson_parser', len(got), len(exp), missing, extra)))
            if any(x.endswith('!') for x in got):
                fails.append(dict(case, what='a delivered line has corrupted content'))
        return {'fails': fails, 'case': case, 'sizes': sizes, 'lens': lens, 'per_rank': per_rank, 'fmt': fmt, 'ranks': ranks, 'nlines': len(exp)}
    finally:
        shutil.rmtree(d, ignore_errors=True)

def coq_assignment_check(results):
    """The model's (rank -> lines) assignment, evaluated in Coq on the same line lengths, must equal what each rank delivered."""
    rows, keep = [], []
    for res in results:
        if res.get('fmt') != 'lines' or res.get('fails') or sum(len(l) for l in res['lens']) > 40000:
            continue
        if any(f['empty_lines'] or any(len(l) < 12 for l in res['lens']) for f in res['case']['files']):
            continue          # lines without an id cannot be attributed to a rank
        per = []
        starts = []
        for l in res['lens']:
            acc, st = 0, []
            for x in l:
                st.append(acc); acc += x
            starts.append(st)
        for rk in range(res['ranks']):
            obs = sorted((int(t.split(':')[0][1:].split('_')[0]), starts[int(t.split(':')[0][1:].split('_')[0])][int(t.split(':')[0].split('_')[1])])
                         for t in res['per_rank'].get(rk, []) if t[0] == 'f')
            per.append('[%s]' % '; '.join('(%d, %d)' % o for o in obs))
        rows.append('(%d, [%s], [%s], [%s])' % (res['ranks'], '; '.join(map(str, res['sizes'])),
                                                 '; '.join('[%s]' % '; '.join(map(str, l)) for l in res['lens']), '; '.join(per)))
        keep.append(res)
    if not rows:
        return 0, None
    text = '''From Coq Require Import ZArith List Bool. Import ListNotations.
From Ygm Require Import LineParser.
Local Open Scope Z_scope.
Definition cases : list (Z * list Z * list (list Z) * list (list (Z * Z))) := [
%s].
Definition predicted (ranks : Z) (sizes : list Z) (lens : list (list Z)) (rk : Z) : list (Z * Z) :=
  let a := carve 8388608 sizes ranks in
  flat_map (fun '(fid, ls) => map (fun s => (Z.of_nat fid, s)) (rank_lines a rk (Z.of_nat fid) (line_starts ls)))
           (combine (seq 0 (length lens)) lens).
Fixpoint same (a b : list (Z * Z)) : bool :=
  match a, b with [], [] => true | x :: a', y :: b' => (fst x =? fst y) && (snd x =? snd y) && same a' b' | _, _ => false end.
Definition ok (c : Z * list Z * list (list Z) * list (list (Z * Z))) : bool := let '(ranks, sizes, lens, per) := c in
  forallb (fun '(rk, got) => same (predicted ranks sizes lens (Z.of_nat rk)) got) (combine (seq 0 (length per)) per).
Fixpoint first_bad (i : nat) (l : list (Z * list Z * list (list Z) * list (list (Z * Z)))) : option nat := match l with [] => None | c :: r => if ok c then first_bad (S i) r else Some i end.
Eval vm_compute in (length cases, first_bad 0 cases).
''' % ';\n'.join(rows)
    rc, out = coq_eval('lines', text, timeout=1200)
    m = re.search(r'=\s*\((\d+)%?\w*,\s*(None|Some\s+(\d+))', out)
    if rc != 0 or not m:
        return 0, 'coqc failed on Tab_lines.v: ' + out[-800:]
    if m.group(2) != 'None':
        return int(m.group(1)), 'LineParser.carve/rank_lines predict a different line-to-rank assignment than the implementation made in case %s: %s' % (m.group(3), keep[int(m.group(3))]['case'])
    return int(m.group(1)), None

def run(tier, seed, replay=None):
    def explore(seed_, count):
        rng = random.Random(seed_ * 31337 + 5)
        import concurrent.futures
        cases = [(random.Random(rng.randrange(1 << 30)), i, tier) for i in range(count)]
        with concurrent.futures.ThreadPoolExecutor(max_workers=6) as ex:
            return list(ex.map(lambda a: one_case(*a), cases))
    def tie(res):
        results = explore(seed, 12 if tier == 'quick' else 120)
        fails = [f for r in results for f in r.get('fails', [])] + dup_case(seed)
        n, msg = coq_assignment_check(results)
        return {'ok': msg is None, 'msg': msg, 'failures': fails, 'validated': n, 'evaluations': len(results),
                'nontrivial': sum(1 for r in results if any(f['boundaries'] for f in r.get('case', {}).get('files', []))),
                'rule': 'generated file sets of 9-17 MB (above the 8 MB granule, so files are split) in three formats, 1-8 ranks, line boundaries forced at -1/0/+1 of every range boundary, boundaries inside long lines, missing final newline, a file ending exactly at a budget boundary; non-trivial: at least one file is split',
                'samples': [r['case'] for r in results[:2] if 'case' in r],
                'tie': 'D: the multiset of lines delivered by the real line_parser / csv_parser / ndjson_parser equals a sequential read; for %d line-format cases the per-rank assignment predicted by LineParser.carve / delivers (evaluated in Coq on the same line lengths) equals the lines each rank delivered' % n,
                'extra': {'lines_total': sum(r.get('nlines', 0) for r in results)}}
    def search():
        return [f for r in explore(seed + 9, 16) for f in r.get('fails', [])]
    return run_check('C18', tier, seed, 'Properties_C18.v', [], tie, search,
                     trusted=['coq/LineParser.v is a hand-written model (reader rule on line starts; carving loop), tied by differential runs',
                              'iostream getline/tellg/seekg, std::filesystem, parse_csv_line and boost::json::parse are oracles', 'simmpi; harness/io.cpp'],
                     assumptions=['files do not change while they are read', 'every line is non-empty as a byte string (it has at least its newline) except possibly a last unterminated one'])
