"""C17: replay of the recorded disjoint_set visits against coq/DisjointLocal.v.

harness/disjoint.cpp (VERIF_DSTRACE=1) prints, per rank and in program order, for every visit of the walk protocol that runs
during a union epoch (hook ds_visit in include/ygm/detail/verif_hooks.hpp, guarded by YGM_VERIF):
   WB <epoch> <rank>                                              the epoch's unions start being issued on this rank
   W <rank> <0|1> <visitor type> <item> <rank> <parent> : <args>  the item's entry before (0) / after (1) the visitor
DisjointLocal.epoch_ok is evaluated by vm_compute on every (run, epoch): every entry after a visit must be lexec's, and the
multiset of visits executed in the epoch must be the unions issued plus the visits lexec says were sent.  Python checks the
continuity of each item's entries inside an epoch and the last entry against the raw dump after the barrier.
"""
import re
from . import *

def visit_term(name, item, args):
    if 'simul_parent_walk_functor' in name:
        if len(args) < 4:
            return None
        # the functor of async_union_and_execute carries (orig_a, orig_b, user args...) after the four walk arguments
        if 'async_union_and_execute' in name:
            if len(args) < 6:
                return None
            return 'Walk (Some (%d, %d)) (%d) (%d) (%d) (%d) (%d)' % (args[4], args[5], item, args[0], args[1], args[2], args[3])
        return 'Walk None (%d) (%d) (%d) (%d) (%d)' % (item, args[0], args[1], args[2], args[3])
    if len(args) == 2:
        return 'Resolve (%d) (%d) (%d)' % (item, args[0], args[1])
    if len(args) == 1:
        return 'UpdParent (%d) (%d)' % (item, args[0])
    return None

def parse(lines, n):
    """-> {epoch: [rec...]} with rec = (rank, item, pre(rank,parent), term, post(rank,parent)); error string or None"""
    ep = {r: 0 for r in range(n)}
    pend = {r: None for r in range(n)}
    out = {}
    for l in lines:
        if l.startswith('WB '):
            t = l.split(); ep[int(t[2])] = int(t[1]); continue
        if not l.startswith('W '):
            continue
        head, _, tail = l.partition(' :')
        t = head.split()
        r, ph, name, item, rk, par = int(t[1]), int(t[2]), t[3], int(t[4]), int(t[5]), int(t[6])
        args = [int(x) for x in tail.split()]
        if ph == 0:
            if pend[r] is not None:
                return None, 'rank %d: a visit started inside another visit (%s)' % (r, l[:120])
            pend[r] = (name, item, rk, par, args)
        else:
            if pend[r] is None or pend[r][0] != name or pend[r][1] != item or pend[r][4] != args:
                return None, 'rank %d: visit end without matching start (%s)' % (r, l[:120])
            term = visit_term(name, item, args)
            if term is None:
                return None, 'unrecognised visitor in a union epoch: %s with %d arguments' % (name[-60:], len(args))
            out.setdefault(ep[r], []).append((r, item, (pend[r][2], pend[r][3]), term, (rk, par)))
            pend[r] = None
    return out, None

COQ = '''From Coq Require Import ZArith List Bool. Import ListNotations.
From Ygm Require Import DisjointSet DisjointLocal.
Local Open Scope Z_scope.
Definition cases : list (list (bool * (Z * Z)) * list rec * list (Z * Z)) := [
%s
].
Definition results := map (fun c => epoch_ok (fst (fst c)) (snd (fst c)) (snd c)) cases.
Definition bad := filter (fun '(i, r) => match r with (None, true, true) => false | _ => true end) (combine (seq 0 (length cases)) results).
Eval vm_compute in (length cases, bad).
'''

def check(gs, runs, tag):
    """gs: graphs (dicts with n, epochs, edges), runs: their results.  -> dict(validated, visits, failures, msg)"""
    cases, owner, fails, nvis = [], [], [], 0
    kinds = {'Walk': 0, 'UpdParent': 0, 'Resolve': 0}
    for g, r in zip(gs, runs):
        if r.get('verdict') != 'ok':
            continue
        recs, err = parse(r['lines'], g['n'])
        if err:
            fails.append({'what': 'visit trace malformed: ' + err, 'cmd': r.get('cmd'), 'level': 'model'}); continue
        # raw dumps after each epoch's barrier
        dump = {}
        for l in r['lines']:
            m = re.match(r'P (\d+) (\d+) :(.*)', l)
            if m:
                for tok in m.group(3).split():
                    it, rr, pp, ow = map(int, tok.split(','))
                    dump[(int(m.group(1)), it)] = (rr, pp)
        # the merge callbacks the container reported, per epoch
        cbs = {}
        for l in r['lines']:
            m = re.match(r'CB (\d+) (\d+) :(.*)', l)
            if m:
                cbs.setdefault(int(m.group(1)), []).extend(tuple(map(int, t.split(','))) for t in m.group(3).split())
        for e in range(1, g['epochs'] + 1):
            rs = recs.get(e, [])
            issued = [(cb, a, b) for (ep, rk, a, b, cb) in g['edges'] if ep == e]
            last = {}
            for (rk, item, pre, term, post) in rs:
                kinds[term.split()[0]] += 1
                if item in last and last[item] != pre:
                    fails.append({'what': 'epoch %d: entry of item %d is %s before a visit, the previous visit left it at %s (changed outside a visit)' % (e, item, pre, last[item]), 'cmd': r.get('cmd'), 'level': 'model'})
                last[item] = post
            for item, post in last.items():
                if dump.get((e, item)) != post:
                    fails.append({'what': 'epoch %d: item %d is %s in the structure after the barrier, its last visit left it at %s' % (e, item, dump.get((e, item)), post), 'cmd': r.get('cmd'), 'level': 'model'})
            if not rs and not issued:
                continue
            nvis += len(rs)
            kinds['callbacks_compared'] = kinds.get('callbacks_compared', 0) + len(cbs.get(e, []))
            cases.append('([%s],\n  [%s],\n  [%s])' % ('; '.join('(%s, (%d, %d))' % ('true' if cb else 'false', a, b) for (cb, a, b) in issued),
                                              ';\n   '.join('(%d, %d, %s, %d, %d)' % (pre[0], pre[1], term, post[0], post[1]) for (_, _, pre, term, post) in rs),
                                              '; '.join('(%d, %d)' % ab for ab in cbs.get(e, []))))
            owner.append((g, r, e, rs))
    if not cases:
        return {'validated': 0, 'visits': 0, 'failures': fails, 'msg': None, 'kinds': kinds}
    rc, out = coq_eval('dstrace_%s' % tag, COQ % ';\n'.join(cases), timeout=900)
    flat = ' '.join(out.split()).replace('%nat', '')
    m = re.search(r'= \((\d+), (\[.*\])\) : nat \*', flat)
    if rc != 0 or not m:
        return {'validated': 0, 'visits': nvis, 'failures': fails, 'msg': 'DisjointLocal.v could not be evaluated on the recorded visits: ' + out[-800:], 'kinds': kinds}
    bad = re.findall(r'\((\d+), \((None|Some (\d+)), (true|false), (true|false)\)\)', m.group(2))
    for ci, fb, fbi, ms, cbok in bad[:5]:
        g, r, e, rs = owner[int(ci)]
        if fb != 'None':
            rk, item, pre, term, post = rs[int(fbi)]
            what = 'epoch %d, rank %d: visit %s found item %d at (rank, parent) = %s and left it at %s; DisjointLocal.lexec gives a different entry' % (e, rk, term, item, pre, post)
        elif ms == 'true':
            what = 'epoch %d: the merge callbacks reported by the container are not the ones DisjointLocal.lcb fires on the recorded visits' % e
        else:
            what = 'epoch %d: the visits executed are not the unions issued plus the visits DisjointLocal.lexec says were sent (a visit was sent with other arguments, lost, duplicated or invented)' % e
        fails.append({'what': what, 'cmd': r.get('cmd'), 'edges': [x for x in g['edges'] if x[0] == e][:12], 'level': 'model'})
    return {'validated': len(cases) - len(bad), 'visits': nvis, 'failures': fails, 'msg': None, 'kinds': kinds}
