"""Shared machinery of the checks (DESIGN.md §3.5, §8)."""
import fcntl, glob, hashlib, json, os, re, subprocess, sys, time

VERIF = os.path.dirname(os.path.dirname(os.path.abspath(__file__)))
REPO = os.environ.get('VERIF_REPO', '/repo')
BUILD = os.path.join(VERIF, '_build')
COQ = os.path.join(VERIF, 'coq')
BIN = os.path.join(BUILD, 'bin')
REPLAYS = os.path.join(BUILD, 'replays')
NCPU = os.cpu_count() or 4

for d in (BUILD, BIN, REPLAYS, os.path.join(VERIF, 'evidence')):
    os.makedirs(d, exist_ok=True)

def sh(cmd, timeout=600, cwd=None, env=None, input=None):
    """Run a command; returns (rc, combined output).  rc 124 on timeout."""
    e = dict(os.environ)
    if env:
        e.update(env)
    try:
        p = subprocess.run(cmd, shell=isinstance(cmd, str), cwd=cwd, env=e, input=input,
                           stdout=subprocess.PIPE, stderr=subprocess.STDOUT, timeout=timeout, text=True,
                           errors='replace')
        return p.returncode, p.stdout
    except subprocess.TimeoutExpired as ex:
        out = ex.stdout or ''
        if isinstance(out, bytes):
            out = out.decode(errors='replace')
        return 124, out + '\n[timeout after %ss]' % timeout

class Lock:
    def __init__(self, name):
        self.path = os.path.join(BUILD, name + '.lock')
    def __enter__(self):
        self.fh = open(self.path, 'w')
        fcntl.flock(self.fh, fcntl.LOCK_EX)
        return self
    def __exit__(self, *a):
        fcntl.flock(self.fh, fcntl.LOCK_UN)
        self.fh.close()

_repo_hash = None
def repo_hash():
    """Hash of everything under /repo that the harnesses and the translator read."""
    global _repo_hash
    if _repo_hash is None:
        h = hashlib.sha256()
        for root, dirs, files in os.walk(os.path.join(REPO, 'include')):
            dirs.sort()
            for f in sorted(files):
                p = os.path.join(root, f)
                h.update(p.encode())
                with open(p, 'rb') as fh:
                    h.update(fh.read())
        _repo_hash = h.hexdigest()[:16]
    return _repo_hash

def file_hash(*paths):
    h = hashlib.sha256()
    for p in paths:
        with open(p, 'rb') as fh:
            h.update(fh.read())
    return h.hexdigest()[:16]

_mpi_flags = None
def mpi_flags():
    global _mpi_flags
    if _mpi_flags is None:
        c = subprocess.check_output(['mpicxx', '-showme:compile'], text=True).split()
        l = subprocess.check_output(['mpicxx', '-showme:link'], text=True).split()
        _mpi_flags = (c, l)
    return _mpi_flags

def compile_cxx(name, sources, flags=(), mpi='openmpi', extra_dep_hash=''):
    """Compile a harness against /repo's current headers.  Cached by content.
    mpi: 'openmpi' | 'simmpi' | 'none'.  Returns (path, None) or (None, error log)."""
    srcs = [os.path.join(VERIF, s) for s in sources]
    key = hashlib.sha256((repo_hash() + file_hash(*srcs) + ' '.join(flags) + mpi + extra_dep_hash).encode()).hexdigest()[:16]
    out = os.path.join(BIN, '%s-%s' % (name, key))
    if os.path.exists(out):
        return out, None
    with Lock('bin-' + name):
        if os.path.exists(out):
            return out, None
        inc = ['-I', os.path.join(REPO, 'include')]
        if mpi == 'openmpi':
            c, l = mpi_flags()
            cmd = ['g++', '-std=c++17', '-O1', '-g', '-fno-access-control', '-DYGM_VERIF'] + list(flags) + inc + c + srcs + ['-o', out + '.tmp'] + l
        elif mpi == 'simmpi':
            sm = os.path.join(VERIF, 'simmpi')
            cmd = ['g++', '-std=c++17', '-O1', '-g', '-fno-access-control', '-DYGM_VERIF', '-DSIMMPI'] + list(flags) + \
                  ['-I', sm] + inc + srcs + [os.path.join(sm, 'stub.cpp'), '-o', out + '.tmp', '-lpthread']
        else:
            cmd = ['g++', '-std=c++17', '-O1', '-g', '-fno-access-control'] + list(flags) + inc + srcs + ['-o', out + '.tmp']
        rc, log = sh(cmd, timeout=600)
        if rc != 0:
            return None, ' '.join(cmd) + '\n' + log
        os.rename(out + '.tmp', out)
        # drop older builds of the same harness
        for old in glob.glob(os.path.join(BIN, name + '-*')):
            if old != out and not old.endswith('.tmp'):
                try:
                    os.remove(old)
                except OSError:
                    pass
    return out, None

# ---------------------------------------------------------------------------
# Coq

FORBIDDEN = re.compile(r'\b(Admitted|admit|Axiom|Axioms|Parameter|Parameters|Conjecture|Hypothesis|Variable|Variables|Hypotheses)\b|Unset Guard|bypass_check|Admit Obligations|type-in-type|impredicative-set|native_compute')

def audit_sources():
    """Forbidden commands anywhere in the development (Variable/Hypothesis are allowed inside Sections only)."""
    bad = []
    files = sorted(glob.glob(os.path.join(COQ, '*.v')) + glob.glob(os.path.join(COQ, '*', '*.v')))
    for f in files:
        depth = 0
        text = open(f).read()
        # strip comments
        text2, i, lvl = [], 0, 0
        while i < len(text):
            if text.startswith('(*', i):
                lvl += 1; i += 2; continue
            if text.startswith('*)', i) and lvl > 0:
                lvl -= 1; i += 2; continue
            text2.append(text[i] if lvl == 0 or text[i] == '\n' else ' ')
            i += 1
        for ln, line in enumerate(''.join(text2).split('\n'), 1):
            if re.match(r'\s*Section\b', line):
                depth += 1
            if re.match(r'\s*End\b', line) and depth > 0:
                depth -= 1
            for m in FORBIDDEN.finditer(line):
                w = m.group(0)
                if w in ('Variable', 'Variables', 'Hypothesis', 'Hypotheses') and depth > 0:
                    continue
                bad.append('%s:%d: %s' % (os.path.relpath(f, VERIF), ln, w))
    return bad

def gen_coq():
    """Regenerate coq/Gen/Gen_*.v from /repo's current headers (tie T)."""
    with Lock('coq'):
        rc, out = sh([sys.executable, os.path.join(VERIF, 'tools', 'cxx2coq.py'), '--repo', REPO,
                      '--out', os.path.join(COQ, 'Gen'), '--cache', os.path.join(BUILD, 'astcache')], timeout=900)
    try:
        st = json.loads(out[out.index('{'):])
    except Exception:
        st = {'translator': 'error: ' + out[-2000:]}
    try:
        # the AST cache is keyed by the headers' contents: keep the most recent dumps only (each is tens of MB)
        cdir = os.path.join(BUILD, 'astcache')
        files = sorted((os.path.join(cdir, f) for f in os.listdir(cdir)), key=os.path.getmtime, reverse=True)
        for f in files[24:]:
            os.remove(f)
    except Exception:
        pass
    return st

def coq_make(targets, timeout=1800):
    """make -k the given .vo targets.  Returns (ok, log, failures) with
    failures = [(file, line, nearest statement name, message)]."""
    os.makedirs(os.path.join(VERIF, 'ocaml', 'gen'), exist_ok=True)      # Extract.v writes there; the directory is git-ignored
    os.makedirs(os.path.join(COQ, 'Gen'), exist_ok=True)
    with Lock('coq'):
        if not os.path.exists(os.path.join(COQ, 'Makefile')) or \
           os.path.getmtime(os.path.join(COQ, 'Makefile')) < os.path.getmtime(os.path.join(COQ, '_CoqProject')):
            sh('coq_makefile -f _CoqProject -o Makefile', cwd=COQ)
        rc, log = sh(['make', '-k', '-j%d' % NCPU] + list(targets), cwd=COQ, timeout=timeout)
    fails = []
    for m in re.finditer(r'File "\./([^"]+)", line (\d+), characters [\d-]+:\s*\n(Error:[^\n]*(?:\n(?!File |make|COQC)[^\n]*){0,6})', log):
        f, ln, msg = m.group(1), int(m.group(2)), m.group(3)
        fails.append((f, ln, nearest_statement(os.path.join(COQ, f), ln), msg.strip()))
    return rc == 0, log, fails

STMT = re.compile(r'^\s*(?:Local\s+|Global\s+)?(Lemma|Theorem|Example|Corollary|Fact|Remark|Proposition)\s+([A-Za-z0-9_\']+)', re.M)

def nearest_statement(path, line):
    try:
        lines = open(path).read().split('\n')
    except OSError:
        return '?'
    for i in range(min(line, len(lines)) - 1, -1, -1):
        m = STMT.match(lines[i])
        if m:
            return m.group(2)
    return '?'

def coq_closure(vfile):
    """.v files (relative to coq/) in the dependency closure of vfile, via coqdep."""
    rc, out = sh('coqdep -f _CoqProject 2>/dev/null', cwd=COQ)
    deps = {}
    for line in out.split('\n'):
        if ':' not in line:
            continue
        lhs, rhs = line.split(':', 1)
        tgt = [t for t in lhs.split() if t.endswith('.vo')]
        if not tgt:
            continue
        deps[tgt[0][:-1]] = [d[:-1] for d in rhs.split() if d.endswith('.vo')]
    seen, todo = [], [vfile]
    while todo:
        v = todo.pop()
        if v in seen:
            continue
        seen.append(v)
        todo.extend(deps.get(v, []))
    return sorted(seen)

def proof_stats(prop_vfile, failed_files=None):
    """Run the property file through coqc (always, so that Print Assumptions output is from
    this run) after its dependencies were built.  Returns dict."""
    closure = coq_closure(prop_vfile)
    statements, per_file = 0, {}
    for v in closure:
        try:
            n = len(STMT.findall(open(os.path.join(COQ, v)).read()))
        except OSError:
            n = 0
        per_file[v] = n
        statements += n
    # a file counts as checked when its .vo exists and `make` (run just before, under the lock) did not report it
    built = {v: os.path.exists(os.path.join(COQ, v + 'o')) and v not in (failed_files or ()) for v in closure}
    t0 = time.time()
    rc, out = sh(['coqc', '-Q', '.', 'Ygm', '-w', '-notation-overridden', prop_vfile], cwd=COQ, timeout=900)
    theorems = STMT.findall(open(os.path.join(COQ, prop_vfile)).read())
    n_print = len(re.findall(r'^\s*Print Assumptions', open(os.path.join(COQ, prop_vfile)).read(), re.M))
    closed = len(re.findall(r'Closed under the global context', out))
    axioms = []
    for m in re.finditer(r'Axioms:\n((?:.+\n?)+?)(?=\n\S|\Z)', out):
        axioms.append(m.group(1).strip())
    discharged = sum(n for v, n in per_file.items() if built.get(v)) if (rc == 0 and closed == n_print) else \
                 sum(n for v, n in per_file.items() if built.get(v) and v != prop_vfile)
    return {'ok': rc == 0 and closed == n_print and all(built.values()), 'rc': rc, 'closure': closure,
            'obligations': statements, 'discharged': discharged,
            'property_theorems': [t[1] for t in theorems], 'print_assumptions': n_print,
            'closed_under_global_context': closed, 'axioms_reported': axioms,
            'coqc_s': round(time.time() - t0, 2), 'log_tail': out[-1500:] if rc != 0 else ''}

# ---------------------------------------------------------------------------
# verdict / evidence

def load_known():
    p = os.path.join(VERIF, 'known_findings.json')
    if not os.path.exists(p):
        return []
    return json.load(open(p)).get('findings', [])

def write_replay(pid, name, obj):
    path = os.path.join(REPLAYS, '%s-%s.json' % (pid, name))
    with open(path, 'w') as fh:
        json.dump(obj, fh, indent=1, default=str)
    return path

TRUSTED_COMMON = [
    'Coq 8.16.1 kernel (coqc); vm_compute only inside Example/witness lemmas and table checks; no native_compute',
    'axioms: none declared; Print Assumptions under every property theorem must say "Closed under the global context"',
]

def write_evidence(pid, tier, seed, t0, coverage, assumptions, violations):
    ev = {'property_id': pid, 'tier': tier, 'seed': seed, 'level': 'proof',
          'coverage': coverage, 'assumptions': assumptions, 'wall_s': round(time.time() - t0, 2),
          'violations': violations}
    path = os.path.join(VERIF, 'evidence', pid + '.json')
    with open(path + '.tmp', 'w') as fh:
        json.dump(ev, fh, indent=1, default=str)
    os.rename(path + '.tmp', path)
    return path

class Result:
    """Accumulates the three parts of a verdict: proofs, tie, oracles."""
    def __init__(self, pid, tier, seed):
        self.pid, self.tier, self.seed = pid, tier, seed
        self.t0 = time.time()
        self.violations = []      # (replay path, message, no_input_found)
        self.known = []           # messages
        self.coverage = {'samples': []}
        self.assumptions = []
        self.notes = []

    def violation(self, name, obj, msg, no_input=False):
        path = write_replay(self.pid, name, obj)
        self.violations.append((path, msg, no_input))

    def finish(self):
        known = load_known()
        for k in self.known:
            print('KNOWN-FINDING: property=%s %s' % (self.pid, k))
        self.coverage.setdefault('trusted_base', TRUSTED_COMMON)
        write_evidence(self.pid, self.tier, self.seed, self.t0, self.coverage, self.assumptions, len(self.violations))
        for path, msg, no_input in self.violations:
            print('# %s' % msg)
            print('VIOLATION property=%s replay=%s%s' % (self.pid, path, ' no-failing-input-found' if no_input else ''))
        sys.stdout.flush()
        return 1 if self.violations else 0

# ---------------------------------------------------------------------------
# simmpi

def simrun_exe():
    src = os.path.join(VERIF, 'simmpi', 'simrun.cpp')
    key = file_hash(src, os.path.join(VERIF, 'simmpi', 'simproto.h'))
    out = os.path.join(BIN, 'simrun-%s' % key)
    if not os.path.exists(out):
        with Lock('bin-simrun'):
            if not os.path.exists(out):
                rc, log = sh(['g++', '-std=c++17', '-O2', '-o', out + '.tmp', src], timeout=300)
                if rc != 0:
                    raise RuntimeError('simrun does not compile:\n' + log)
                os.rename(out + '.tmp', out)
    return out

def sim_dep_hash():
    return file_hash(os.path.join(VERIF, 'simmpi', 'stub.cpp'), os.path.join(VERIF, 'simmpi', 'mpi.h'),
                     os.path.join(VERIF, 'simmpi', 'simproto.h'))

def compile_sim(name, sources, flags=()):
    return compile_cxx(name, sources, flags=flags, mpi='simmpi', extra_dep_hash=sim_dep_hash())

def simrun(exe, n, args=(), ppn=None, seed=1, policy='uniform', env=None, eager=None, logdir=None, glog=None,
           wall=60, maxsteps=None, spin=None, cwd=None, timeout=None, cyclic=False, placement=None):
    """Run a harness under simmpi.  Returns dict(verdict, detail, stats, out(lines without RESULT), raw)."""
    cmd = [simrun_exe(), '-n', str(n), '-seed', str(seed), '-policy', policy, '-wall', str(wall)]
    if ppn:
        cmd += ['-ppn', str(ppn)]
    if cyclic:
        cmd += ['-cyclic']
    if placement:
        cmd += ['-placement', ','.join(str(x) for x in placement)]
    if eager is not None:
        cmd += ['-eager', str(eager)]
    if logdir:
        os.makedirs(logdir, exist_ok=True)
        cmd += ['-logdir', logdir]
    if glog:
        cmd += ['-glog', glog]
    if maxsteps:
        cmd += ['-maxsteps', str(maxsteps)]
    if spin:
        cmd += ['-spin', str(spin)]
    for k, v in (env or {}).items():
        cmd += ['-env', '%s=%s' % (k, v)]
    cmd += ['--', exe] + [str(a) for a in args]
    rc, out = sh(cmd, timeout=timeout or (wall + 30), cwd=cwd)
    lines = out.split('\n')
    res = {'verdict': 'infra', 'detail': '', 'stats': {}, 'out': [], 'raw': out, 'cmd': ' '.join(cmd)}
    for l in lines:
        if l.startswith('RESULT '):
            parts = l.split()
            res['verdict'] = parts[1]
            for p in parts[2:]:
                if '=' in p and not p.startswith('detail='):
                    k, v = p.split('=', 1)
                    try:
                        res['stats'][k] = int(v)
                    except ValueError:
                        pass
            if 'detail=' in l:
                res['detail'] = l.split('detail=', 1)[1]
        else:
            res['out'].append(l)
    return res

# ---------------------------------------------------------------------------
# the standard shape of a check (DESIGN §3.5)

def run_check(pid, tier, seed, prop, gen_needed, tie, search=None, trusted=(), assumptions=(), checker_note=''):
    """prop: Properties_<id>.v; gen_needed: generated files this property's tie rests on;
    tie(res) -> dict(ok:bool, msg:str, failures:[dict], validated:int, evaluations:int, nontrivial:int, rule:str,
                     samples:[...], known:[str], extra:{})
    search() -> [failure dicts] on an extended domain (called only when proofs or tie are broken and the tie's own
    oracles found nothing)."""
    res = Result(pid, tier, seed)
    bad_src = audit_sources()
    gen = gen_coq()
    ok, log, fails = coq_make([prop + 'o'])
    stats = proof_stats(prop, failed_files={f for f, _, _, _ in fails})
    gen_bad = {k: v for k, v in gen.items() if (k in gen_needed or k == 'translator') and not str(v).startswith('ok')}
    proofs_ok = ok and stats['ok'] and not bad_src and not gen_bad
    t = tie(res) or {}
    # a failure marked level='model' says that the implementation and the MODEL disagree (an executable definition replayed on a
    # recorded run, an invariant of the model read off the real structure): that is a broken correspondence, not by itself a
    # violation of the property - the search then looks for a property-level failing input
    for f in t.get('failures', []):
        # a harness that no longer compiles against the current headers (it reads private members, calls internal functions) says
        # that the code moved away from what the correspondence observes, not that the property fails on some input
        if isinstance(f, dict) and 'does not compile against the current headers' in str(f.get('what', '')):
            f['level'] = 'model'
    model_fails = [f for f in t.get('failures', []) if isinstance(f, dict) and f.get('level') == 'model']
    failures = [f for f in t.get('failures', []) if not (isinstance(f, dict) and f.get('level') == 'model')]
    if model_fails and not failures:
        t['ok'] = False
        t['msg'] = t.get('msg') or ('the implementation and the model disagree: ' + str(model_fails[0].get('what', model_fails[0])))
    res.known.extend(t.get('known', []))
    if failures:
        res.violation('input', {'property': pid, 'kind': t.get('kind', 'enumeration'), 'failures': failures[:20],
                                'how_to_replay': t.get('replay', '')},
                      '%s oracle on the implementation: %s' % (pid, failures[0].get('what', failures[0])))
    elif not proofs_ok or not t.get('ok', False):
        broken = [{'file': f, 'line': l, 'statement': s, 'error': m} for f, l, s, m in fails]
        if not t.get('ok', False):
            broken.append({'correspondence': t.get('msg', 'tie not established'), 'disagreements': model_fails[:5]})
        if bad_src:
            broken.append({'audit': bad_src})
        if gen_bad:
            broken.append({'translator': gen_bad})
        if not broken:
            broken.append({'proof_check': stats.get('log_tail', '') or 'Print Assumptions did not report a closed proof for every theorem'})
        found = [f for f in (search() if search else []) if not (isinstance(f, dict) and f.get('level') == 'model')]
        what = {'property': pid, 'kind': 'proof-obligation', 'broken': broken}
        name = (fails[0][2] if fails[0][2] != '?' else '%s (%s)' % (fails[0][0], str(fails[0][3])[:120].replace(chr(10), ' '))) if fails else (t.get('msg') or str(broken[0]))[:160]
        if found:
            what['failures'] = found[:20]
            res.violation('input', what, '%s: %s no longer checks; failing input: %s' % (pid, name, found[0].get('what', found[0])))
        else:
            res.violation('proof', what, '%s: %s no longer checks' % (pid, name), no_input=True)
    disch = stats.get('discharged', 0)
    if not proofs_ok and disch >= stats.get('obligations', 0):
        disch = max(stats.get('obligations', 1) - 1, 0)
    res.coverage.update({
        'obligations': stats.get('obligations', 0), 'discharged': disch,
        'checker_cmd': 'cd coq && make %so && coqc -Q . Ygm %s   (Print Assumptions under every theorem)%s' % (prop, prop, checker_note),
        'property_theorems': stats.get('property_theorems', []),
        'closure_files': stats.get('closure', []),
        'axioms_reported': stats.get('axioms_reported', []),
        'translator_status': {k: v for k, v in gen.items() if k in gen_needed or k == 'translator'},
        'tie': t.get('tie', ''),
        'traces_validated_against_impl': t.get('validated', 0),
        'evaluations': t.get('evaluations', 0), 'distinct_nontrivial': t.get('nontrivial', 0),
        'rule': t.get('rule', ''), 'samples': t.get('samples', []),
        'trusted_base': TRUSTED_COMMON + list(trusted),
    })
    if 'exhaustive' in t:
        res.coverage['exhaustive'] = t['exhaustive']
    res.coverage.update(t.get('extra', {}))
    res.assumptions = list(assumptions)
    return res.finish()

def coq_eval(name, text, timeout=900):
    """Write coq/Gen/Tab_<name>.v, compile it, return (rc, output)."""
    v = os.path.join(COQ, 'Gen', 'Tab_%s.v' % name)
    with open(v, 'w') as fh:
        fh.write(text)
    with Lock('coqtab-' + name):
        return sh('ulimit -s unlimited 2>/dev/null || ulimit -s 1000000; coqc -Q . Ygm Gen/Tab_%s.v' % name, cwd=COQ, timeout=timeout)
