from . import core
def run(tier, seed, replay=None):
    return core.run('C05', tier, seed, replay)
