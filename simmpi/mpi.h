// simmpi/mpi.h — the subset of MPI that YGM uses, implemented by stub.cpp as
// blocking RPCs to the simrun coordinator (DESIGN.md §3.1, Appendix A).
#pragma once
#include <stddef.h>
#include <stdint.h>

#ifdef __cplusplus
extern "C" {
#endif

typedef int MPI_Comm;
typedef int MPI_Request;
typedef int MPI_Datatype;
typedef int MPI_Op;
typedef int MPI_Info;
typedef struct MPI_Status {
  int MPI_SOURCE;
  int MPI_TAG;
  int MPI_ERROR;
  int _count;
} MPI_Status;

#define MPI_SUCCESS 0
#define MPI_ERR_OTHER 15
#define MPI_COMM_WORLD 0
#define MPI_COMM_NULL (-1)
#define MPI_REQUEST_NULL (-1)
#define MPI_ANY_SOURCE (-1)
#define MPI_ANY_TAG (-1)
#define MPI_UNDEFINED (-32766)
#define MPI_INFO_NULL 0
#define MPI_COMM_TYPE_SHARED 1
#define MPI_STATUS_IGNORE ((MPI_Status *)0)
#define MPI_STATUSES_IGNORE ((MPI_Status *)0)
#define MPI_THREAD_MULTIPLE 3
#define MPI_MAX_ERROR_STRING 256

// datatypes: (kind << 8) | size ; kind 0 = bytes/char, 1 = signed, 2 = unsigned, 3 = float, 4 = bool
#define SIMMPI_DT(kind, size) (((kind) << 8) | (size))
#define MPI_BYTE SIMMPI_DT(0, 1)
#define MPI_CHAR SIMMPI_DT(1, 1)
#define MPI_CXX_BOOL SIMMPI_DT(4, 1)
#define MPI_INT8_T SIMMPI_DT(1, 1)
#define MPI_INT16_T SIMMPI_DT(1, 2)
#define MPI_INT32_T SIMMPI_DT(1, 4)
#define MPI_INT64_T SIMMPI_DT(1, 8)
#define MPI_UINT8_T SIMMPI_DT(2, 1)
#define MPI_UINT16_T SIMMPI_DT(2, 2)
#define MPI_UINT32_T SIMMPI_DT(2, 4)
#define MPI_UINT64_T SIMMPI_DT(2, 8)
#define MPI_INT SIMMPI_DT(1, 4)
#define MPI_UNSIGNED SIMMPI_DT(2, 4)
#define MPI_LONG SIMMPI_DT(1, 8)
#define MPI_UNSIGNED_LONG SIMMPI_DT(2, 8)
#define MPI_FLOAT SIMMPI_DT(3, 4)
#define MPI_DOUBLE SIMMPI_DT(3, 8)
#define MPI_LONG_DOUBLE SIMMPI_DT(3, 16)

#define MPI_SUM 1
#define MPI_MIN 2
#define MPI_MAX 3
#define MPI_LAND 4
#define MPI_LOR 5

int MPI_Init(int *argc, char ***argv);
int MPI_Init_thread(int *argc, char ***argv, int required, int *provided);
int MPI_Initialized(int *flag);
int MPI_Finalize(void);
int MPI_Abort(MPI_Comm comm, int errorcode);
double MPI_Wtime(void);
int MPI_Error_string(int errorcode, char *string, int *resultlen);

int MPI_Comm_size(MPI_Comm comm, int *size);
int MPI_Comm_rank(MPI_Comm comm, int *rank);
int MPI_Comm_dup(MPI_Comm comm, MPI_Comm *newcomm);
int MPI_Comm_free(MPI_Comm *comm);
int MPI_Comm_split(MPI_Comm comm, int color, int key, MPI_Comm *newcomm);
int MPI_Comm_split_type(MPI_Comm comm, int split_type, int key, MPI_Info info, MPI_Comm *newcomm);

int MPI_Barrier(MPI_Comm comm);
int MPI_Allreduce(const void *sendbuf, void *recvbuf, int count, MPI_Datatype dt, MPI_Op op, MPI_Comm comm);
int MPI_Iallreduce(const void *sendbuf, void *recvbuf, int count, MPI_Datatype dt, MPI_Op op, MPI_Comm comm,
                   MPI_Request *request);
int MPI_Exscan(const void *sendbuf, void *recvbuf, int count, MPI_Datatype dt, MPI_Op op, MPI_Comm comm);
int MPI_Scan(const void *sendbuf, void *recvbuf, int count, MPI_Datatype dt, MPI_Op op, MPI_Comm comm);
int MPI_Reduce(const void *sendbuf, void *recvbuf, int count, MPI_Datatype dt, MPI_Op op, int root, MPI_Comm comm);
int MPI_Wait(MPI_Request *req, MPI_Status *status);
int MPI_Waitall(int count, MPI_Request reqs[], MPI_Status statuses[]);
int MPI_Waitany(int count, MPI_Request reqs[], int *index, MPI_Status *status);
int MPI_Testall(int count, MPI_Request reqs[], int *flag, MPI_Status statuses[]);
int MPI_Testany(int count, MPI_Request reqs[], int *index, int *flag, MPI_Status *status);
int MPI_Testsome(int incount, MPI_Request reqs[], int *outcount, int indices[], MPI_Status statuses[]);
int MPI_Ssend(const void *buf, int count, MPI_Datatype dt, int dest, int tag, MPI_Comm comm);
int MPI_Finalized(int *flag);
int MPI_Bcast(void *buffer, int count, MPI_Datatype dt, int root, MPI_Comm comm);
int MPI_Allgather(const void *sendbuf, int sendcount, MPI_Datatype sendtype, void *recvbuf, int recvcount,
                  MPI_Datatype recvtype, MPI_Comm comm);

int MPI_Send(const void *buf, int count, MPI_Datatype dt, int dest, int tag, MPI_Comm comm);
int MPI_Recv(void *buf, int count, MPI_Datatype dt, int source, int tag, MPI_Comm comm, MPI_Status *status);
int MPI_Isend(const void *buf, int count, MPI_Datatype dt, int dest, int tag, MPI_Comm comm, MPI_Request *request);
int MPI_Issend(const void *buf, int count, MPI_Datatype dt, int dest, int tag, MPI_Comm comm, MPI_Request *request);
int MPI_Irecv(void *buf, int count, MPI_Datatype dt, int source, int tag, MPI_Comm comm, MPI_Request *request);
int MPI_Test(MPI_Request *request, int *flag, MPI_Status *status);
int MPI_Waitsome(int incount, MPI_Request requests[], int *outcount, int indices[], MPI_Status statuses[]);
int MPI_Cancel(MPI_Request *request);
int MPI_Get_count(const MPI_Status *status, MPI_Datatype dt, int *count);

// harness notes: appended to the per-rank log with the global position of the
// rank's last MPI reply, so that all notes of all ranks are totally ordered
void simmpi_note(const char *fmt, ...);
// global step of the last reply this rank received (for harness-side ordering)
uint64_t simmpi_step(void);

#ifdef __cplusplus
}
#endif
