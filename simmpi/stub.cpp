// stub.cpp — rank side of simmpi: every MPI entry point is one blocking RPC to
// the coordinator (simrun) over the inherited socket SIMMPI_FD.
#include "mpi.h"
#include "simproto.h"
#include <map>
#include <stdarg.h>
#include <sys/socket.h>

namespace {
int      g_fd = -1;
int      g_world_rank = -1, g_world_size = 0;
bool     g_init = false, g_final = false;
uint64_t g_step = 0, g_calls = 0, g_lseq = 0;
FILE    *g_log = nullptr;
bool     g_logbytes = false;
int      g_next_req = 1;

struct CommInfo { int rank, size; };
std::map<int, CommInfo> g_comms;

struct ReqInfo {
  int      kind;      // 1 send, 2 recv, 3 iallreduce
  void    *buf;
  size_t   cap;
  const void *sbuf;
  size_t   slen;
  uint64_t sum;
};
std::map<int, ReqInfo> g_reqs;

uint64_t fnv(const void *p, size_t n) {
  const unsigned char *c = (const unsigned char *)p;
  uint64_t h = 1469598103934665603ull;
  for (size_t i = 0; i < n; ++i) { h ^= c[i]; h *= 1099511628211ull; }
  return h;
}

[[noreturn]] void die(const char *msg) {
  fprintf(stderr, "simmpi stub (rank %d): %s\n", g_world_rank, msg);
  if (g_log) { fprintf(g_log, "DIE %s\n", msg); fflush(g_log); }
  _exit(97);
}

void connect_once() {
  if (g_fd >= 0) return;
  const char *fd = getenv("SIMMPI_FD");
  if (!fd) die("SIMMPI_FD not set: run under simmpi/simrun");
  g_fd = atoi(fd);
  g_world_rank = atoi(getenv("SIMMPI_RANK"));
  g_world_size = atoi(getenv("SIMMPI_SIZE"));
  g_logbytes = getenv("SIMMPI_LOGBYTES") && atoi(getenv("SIMMPI_LOGBYTES"));
  if (const char *d = getenv("SIMMPI_LOGDIR")) {
    std::string p = std::string(d) + "/rank" + std::to_string(g_world_rank) + ".log";
    g_log = fopen(p.c_str(), "w");
    if (g_log) setvbuf(g_log, nullptr, _IOLBF, 0);
  }
  g_comms[MPI_COMM_WORLD] = {g_world_rank, g_world_size};
}

void loghex(const void *p, size_t n) {
  if (!g_log) return;
  if (!g_logbytes) { fprintf(g_log, " #%zu", n); return; }
  const unsigned char *c = (const unsigned char *)p;
  fputc(' ', g_log);
  if (n == 0) fputc('-', g_log);
  for (size_t i = 0; i < n; ++i) fprintf(g_log, "%02x", c[i]);
}

struct Reply {
  SimRep hdr;
  std::vector<SimItem> items;
  std::vector<std::vector<char>> pay;
};

// one RPC
void rpc(SimReq &rq, const void *payload, Reply &rp) {
  connect_once();
  ++g_calls;
  if (!sim_write_all(g_fd, &rq, sizeof rq)) die("coordinator gone (write)");
  if (rq.paylen && !sim_write_all(g_fd, payload, rq.paylen)) die("coordinator gone (write payload)");
  if (!sim_read_all(g_fd, &rp.hdr, sizeof rp.hdr)) die("coordinator gone (read)");
  rp.items.resize(rp.hdr.n);
  rp.pay.resize(rp.hdr.n);
  for (int i = 0; i < rp.hdr.n; ++i) {
    if (!sim_read_all(g_fd, &rp.items[i], sizeof(SimItem))) die("coordinator gone (item)");
    rp.pay[i].resize(rp.items[i].paylen);
    if (rp.items[i].paylen && !sim_read_all(g_fd, rp.pay[i].data(), rp.items[i].paylen)) die("coordinator gone (item payload)");
  }
  g_step = rp.hdr.step;
  g_lseq = 0;
}

SimReq mk(uint8_t op, MPI_Comm comm) {
  SimReq r;
  memset(&r, 0, sizeof r);
  r.op = op;
  r.comm = comm;
  return r;
}

size_t dtsize(MPI_Datatype dt) { return (size_t)(dt & 0xff); }

// apply a completion item to its request
void complete(int reqid, const SimItem &it, const std::vector<char> &pay, MPI_Status *st) {
  auto f = g_reqs.find(reqid);
  if (f == g_reqs.end()) die("completion of unknown request");
  ReqInfo &ri = f->second;
  if (ri.kind == 1) {
    if (fnv(ri.sbuf, ri.slen) != ri.sum) {
      if (g_log) { fprintf(g_log, "MISUSE send buffer modified before completion req=%d\n", reqid); fflush(g_log); }
      fprintf(stderr, "simmpi: rank %d modified a send buffer before completion\n", g_world_rank);
      _exit(96);
    }
  } else {
    if (pay.size() > ri.cap) die("completion larger than buffer");
    if (!pay.empty()) memcpy(ri.buf, pay.data(), pay.size());
  }
  if (st) { st->MPI_SOURCE = it.src; st->MPI_TAG = it.tag; st->MPI_ERROR = 0; st->_count = (int)it.count; }
  g_reqs.erase(f);
}
}  // namespace

// inclusive scan = exclusive scan of the lower ranks (undefined on rank 0: no payload in the reply) combined with the own value
template <typename T> static void scan_combine(T *acc, const T *x, int n, int op) {
  for (int i = 0; i < n; ++i) {
    switch (op) {
      case MPI_SUM: acc[i] = (T)(acc[i] + x[i]); break;
      case MPI_MIN: acc[i] = x[i] < acc[i] ? x[i] : acc[i]; break;
      case MPI_MAX: acc[i] = x[i] > acc[i] ? x[i] : acc[i]; break;
      case MPI_LAND: acc[i] = (T)(acc[i] && x[i]); break;
      case MPI_LOR: acc[i] = (T)(acc[i] || x[i]); break;
    }
  }
}
extern "C" {

uint64_t simmpi_step(void) { return g_step; }

void simmpi_note(const char *fmt, ...) {
  connect_once();
  if (!g_log) return;
  fprintf(g_log, "N %llu.%llu ", (unsigned long long)g_step, (unsigned long long)(++g_lseq));
  va_list ap;
  va_start(ap, fmt);
  vfprintf(g_log, fmt, ap);
  va_end(ap);
  fputc('\n', g_log);
}

int MPI_Init(int *, char ***) {
  SimReq r = mk(OP_INIT, 0);
  Reply rp;
  rpc(r, nullptr, rp);
  g_init = true;
  if (g_log) fprintf(g_log, "C %llu INIT rank=%d size=%d\n", (unsigned long long)g_step, g_world_rank, g_world_size);
  return MPI_SUCCESS;
}
int MPI_Init_thread(int *a, char ***b, int required, int *provided) {
  if (provided) *provided = required;
  return MPI_Init(a, b);
}
int MPI_Initialized(int *flag) { *flag = g_init ? 1 : 0; return MPI_SUCCESS; }
int MPI_Finalize(void) {
  SimReq r = mk(OP_FINALIZE, 0);
  Reply rp;
  rpc(r, nullptr, rp);
  g_final = true;
  if (g_log) { fprintf(g_log, "C %llu FINALIZE\n", (unsigned long long)g_step); fflush(g_log); }
  return MPI_SUCCESS;
}
int MPI_Abort(MPI_Comm, int code) {
  SimReq r = mk(OP_ABORT, 0);
  r.key = code;
  Reply rp;
  if (g_log) { fprintf(g_log, "C %llu ABORT %d\n", (unsigned long long)g_step, code); fflush(g_log); }
  rpc(r, nullptr, rp);
  _exit(code ? code : 1);
}
double MPI_Wtime(void) { static double t = 0; t += 1e-6; return t; }
int MPI_Error_string(int, char *s, int *len) {
  if (s) { strcpy(s, "simmpi error"); }
  if (len) *len = 12;
  return MPI_SUCCESS;
}

int MPI_Comm_size(MPI_Comm c, int *size) {
  connect_once();
  auto f = g_comms.find(c);
  if (f == g_comms.end()) die("MPI_Comm_size on unknown communicator");
  *size = f->second.size;
  return MPI_SUCCESS;
}
int MPI_Comm_rank(MPI_Comm c, int *rank) {
  connect_once();
  auto f = g_comms.find(c);
  if (f == g_comms.end()) die("MPI_Comm_rank on unknown communicator");
  *rank = f->second.rank;
  return MPI_SUCCESS;
}
static int newcomm(SimReq &r, MPI_Comm *out, const char *what) {
  Reply rp;
  rpc(r, nullptr, rp);
  *out = rp.hdr.val0;
  if (rp.hdr.val0 >= 0) g_comms[rp.hdr.val0] = {rp.hdr.val1, rp.hdr.val2};
  if (g_log) fprintf(g_log, "C %llu %s comm=%d -> %d rank=%d size=%d\n", (unsigned long long)g_step, what, r.comm,
                     rp.hdr.val0, rp.hdr.val1, rp.hdr.val2);
  return rp.hdr.err;
}
int MPI_Comm_dup(MPI_Comm c, MPI_Comm *n) {
  SimReq r = mk(OP_COMM_DUP, c);
  return newcomm(r, n, "COMM_DUP");
}
int MPI_Comm_split(MPI_Comm c, int color, int key, MPI_Comm *n) {
  SimReq r = mk(OP_COMM_SPLIT, c);
  r.color = color; r.key = key;
  return newcomm(r, n, "COMM_SPLIT");
}
int MPI_Comm_split_type(MPI_Comm c, int, int key, MPI_Info, MPI_Comm *n) {
  SimReq r = mk(OP_COMM_SPLIT, c);
  r.color = -7777;   // coordinator: colour by world_rank / ppn
  r.key = key;
  return newcomm(r, n, "COMM_SPLIT_TYPE");
}
int MPI_Comm_free(MPI_Comm *c) {
  SimReq r = mk(OP_COMM_FREE, *c);
  Reply rp;
  rpc(r, nullptr, rp);
  if (g_log) fprintf(g_log, "C %llu COMM_FREE comm=%d\n", (unsigned long long)g_step, *c);
  g_comms.erase(*c);
  *c = MPI_COMM_NULL;
  return rp.hdr.err;
}

int MPI_Barrier(MPI_Comm c) {
  SimReq r = mk(OP_BARRIER, c);
  Reply rp;
  if (g_log) fprintf(g_log, "C %llu BARRIER comm=%d\n", (unsigned long long)g_step, c);
  rpc(r, nullptr, rp);
  if (g_log) fprintf(g_log, "R %llu BARRIER\n", (unsigned long long)g_step);
  return rp.hdr.err;
}

static int coll(uint8_t op, const char *nm, const void *sb, void *rb, int count, MPI_Datatype dt, MPI_Op rop, MPI_Comm c) {
  SimReq r = mk(op, c);
  r.dtype = dt; r.rop = rop; r.count = (uint64_t)count;
  r.paylen = (uint64_t)count * dtsize(dt);
  Reply rp;
  if (g_log) { fprintf(g_log, "C %llu %s comm=%d dt=%d op=%d count=%d", (unsigned long long)g_step, nm, c, dt, rop, count); loghex(sb, r.paylen); fputc('\n', g_log); }
  rpc(r, sb, rp);
  if (rp.hdr.n == 1 && rp.hdr.flag) memcpy(rb, rp.pay[0].data(), rp.pay[0].size());
  if (g_log) { fprintf(g_log, "R %llu %s", (unsigned long long)g_step, nm); if (rp.hdr.n == 1 && rp.hdr.flag) loghex(rp.pay[0].data(), rp.pay[0].size()); fputc('\n', g_log); }
  return rp.hdr.err;
}
int MPI_Allreduce(const void *sb, void *rb, int count, MPI_Datatype dt, MPI_Op op, MPI_Comm c) {
  return coll(OP_ALLREDUCE, "ALLREDUCE", sb, rb, count, dt, op, c);
}
int MPI_Exscan(const void *sb, void *rb, int count, MPI_Datatype dt, MPI_Op op, MPI_Comm c) {
  return coll(OP_EXSCAN, "EXSCAN", sb, rb, count, dt, op, c);
}
int MPI_Scan(const void *sb, void *rb, int count, MPI_Datatype dt, MPI_Op op, MPI_Comm c) {
  const int kind = dt >> 8, sz = dt & 0xff;
  const size_t bytes = (size_t)count * (size_t)sz;
  std::vector<char> marker(bytes, (char)0x5a), ex(marker);
  int err = MPI_Exscan(sb, ex.data(), count, dt, op, c);
  int me = 0;
  MPI_Comm_rank(c, &me);
  if (me == 0) { memcpy(rb, sb, bytes); return err; }
#define SC(T) scan_combine<T>((T *)ex.data(), (const T *)sb, count, op)
  if (kind == 4) SC(bool);
  else if (kind == 3 && sz == 4) SC(float);
  else if (kind == 3 && sz == 8) SC(double);
  else if (kind == 3 && sz == 16) SC(long double);
  else if ((kind == 1 || kind == 0) && sz == 1) SC(int8_t);
  else if (kind == 1 && sz == 2) SC(int16_t);
  else if (kind == 1 && sz == 4) SC(int32_t);
  else if (kind == 1 && sz == 8) SC(int64_t);
  else if (kind == 2 && sz == 1) SC(uint8_t);
  else if (kind == 2 && sz == 2) SC(uint16_t);
  else if (kind == 2 && sz == 4) SC(uint32_t);
  else if (kind == 2 && sz == 8) SC(uint64_t);
#undef SC
  memcpy(rb, ex.data(), bytes);
  return err;
}
int MPI_Iallreduce(const void *sb, void *rb, int count, MPI_Datatype dt, MPI_Op op, MPI_Comm c, MPI_Request *req) {
  SimReq r = mk(OP_IALLREDUCE, c);
  r.dtype = dt; r.rop = op; r.count = (uint64_t)count;
  r.paylen = (uint64_t)count * dtsize(dt);
  int id = g_next_req++;
  r.nreq = 1; r.reqs[0] = id;
  Reply rp;
  if (g_log) { fprintf(g_log, "C %llu IALLREDUCE comm=%d req=%d dt=%d op=%d count=%d", (unsigned long long)g_step, c, id, dt, op, count); loghex(sb, r.paylen); fputc('\n', g_log); }
  rpc(r, sb, rp);
  g_reqs[id] = {3, rb, (size_t)r.paylen, nullptr, 0, 0};
  *req = id;
  return rp.hdr.err;
}
int MPI_Bcast(void *buf, int count, MPI_Datatype dt, int root, MPI_Comm c) {
  SimReq r = mk(OP_BCAST, c);
  r.root = root; r.dtype = dt; r.count = (uint64_t)count;
  int me; MPI_Comm_rank(c, &me);
  size_t bytes = (size_t)count * dtsize(dt);
  r.paylen = (me == root) ? bytes : 0;
  Reply rp;
  if (g_log) { fprintf(g_log, "C %llu BCAST comm=%d root=%d bytes=%zu", (unsigned long long)g_step, c, root, bytes); if (me == root) loghex(buf, bytes); fputc('\n', g_log); }
  rpc(r, buf, rp);
  if (me != root) {
    if (rp.hdr.n != 1 || rp.pay[0].size() != bytes) die("MPI_Bcast size mismatch between root and receiver");
    memcpy(buf, rp.pay[0].data(), bytes);
  }
  if (g_log) { fprintf(g_log, "R %llu BCAST", (unsigned long long)g_step); if (me != root) loghex(buf, bytes); fputc('\n', g_log); }
  return rp.hdr.err;
}
int MPI_Allgather(const void *sb, int scount, MPI_Datatype st, void *rb, int rcount, MPI_Datatype rt, MPI_Comm c) {
  SimReq r = mk(OP_ALLGATHER, c);
  r.count = (uint64_t)scount * dtsize(st);
  r.paylen = r.count;
  Reply rp;
  if (g_log) { fprintf(g_log, "C %llu ALLGATHER comm=%d bytes=%llu", (unsigned long long)g_step, c, (unsigned long long)r.count); loghex(sb, r.paylen); fputc('\n', g_log); }
  rpc(r, sb, rp);
  int sz; MPI_Comm_size(c, &sz);
  if (rp.hdr.n != 1 || rp.pay[0].size() != (size_t)sz * rcount * dtsize(rt)) die("MPI_Allgather size mismatch");
  memcpy(rb, rp.pay[0].data(), rp.pay[0].size());
  if (g_log) { fprintf(g_log, "R %llu ALLGATHER", (unsigned long long)g_step); loghex(rb, rp.pay[0].size()); fputc('\n', g_log); }
  return rp.hdr.err;
}

int MPI_Send(const void *buf, int count, MPI_Datatype dt, int dest, int tag, MPI_Comm c) {
  SimReq r = mk(OP_SEND, c);
  r.peer = dest; r.tag = tag; r.count = (uint64_t)count * dtsize(dt); r.paylen = r.count;
  Reply rp;
  if (g_log) { fprintf(g_log, "C %llu SEND comm=%d dest=%d tag=%d", (unsigned long long)g_step, c, dest, tag); loghex(buf, r.paylen); fputc('\n', g_log); }
  rpc(r, buf, rp);
  if (g_log) fprintf(g_log, "R %llu SEND\n", (unsigned long long)g_step);
  return rp.hdr.err;
}
int MPI_Recv(void *buf, int count, MPI_Datatype dt, int src, int tag, MPI_Comm c, MPI_Status *st) {
  SimReq r = mk(OP_RECV, c);
  r.peer = src; r.tag = tag; r.count = (uint64_t)count * dtsize(dt);
  Reply rp;
  if (g_log) fprintf(g_log, "C %llu RECV comm=%d src=%d tag=%d cap=%llu\n", (unsigned long long)g_step, c, src, tag, (unsigned long long)r.count);
  rpc(r, nullptr, rp);
  if (rp.hdr.n != 1) die("MPI_Recv: no item in reply");
  if (rp.pay[0].size() > r.count) die("MPI_Recv: message truncated");
  memcpy(buf, rp.pay[0].data(), rp.pay[0].size());
  if (st) { st->MPI_SOURCE = rp.items[0].src; st->MPI_TAG = rp.items[0].tag; st->MPI_ERROR = 0; st->_count = (int)rp.items[0].count; }
  if (g_log) { fprintf(g_log, "R %llu RECV src=%d", (unsigned long long)g_step, rp.items[0].src); loghex(buf, rp.pay[0].size()); fputc('\n', g_log); }
  return rp.hdr.err;
}
static int isend(const void *buf, int count, MPI_Datatype dt, int dest, int tag, MPI_Comm c, MPI_Request *req, int sync) {
  SimReq r = mk(OP_ISEND, c);
  r.peer = dest; r.tag = tag; r.count = (uint64_t)count * dtsize(dt); r.paylen = r.count; r.sync = sync;
  int id = g_next_req++;
  r.nreq = 1; r.reqs[0] = id;
  Reply rp;
  if (g_log) { fprintf(g_log, "C %llu %s comm=%d req=%d dest=%d tag=%d", (unsigned long long)g_step, sync ? "ISSEND" : "ISEND", c, id, dest, tag); loghex(buf, r.paylen); fputc('\n', g_log); }
  rpc(r, buf, rp);
  g_reqs[id] = {1, nullptr, 0, buf, (size_t)r.paylen, fnv(buf, r.paylen)};
  *req = id;
  return rp.hdr.err;
}
int MPI_Isend(const void *buf, int count, MPI_Datatype dt, int dest, int tag, MPI_Comm c, MPI_Request *req) {
  return isend(buf, count, dt, dest, tag, c, req, 0);
}
int MPI_Issend(const void *buf, int count, MPI_Datatype dt, int dest, int tag, MPI_Comm c, MPI_Request *req) {
  return isend(buf, count, dt, dest, tag, c, req, 1);
}
int MPI_Irecv(void *buf, int count, MPI_Datatype dt, int src, int tag, MPI_Comm c, MPI_Request *req) {
  SimReq r = mk(OP_IRECV, c);
  r.peer = src; r.tag = tag; r.count = (uint64_t)count * dtsize(dt);
  int id = g_next_req++;
  r.nreq = 1; r.reqs[0] = id;
  Reply rp;
  if (g_log) fprintf(g_log, "C %llu IRECV comm=%d req=%d src=%d tag=%d cap=%llu\n", (unsigned long long)g_step, c, id, src, tag, (unsigned long long)r.count);
  rpc(r, nullptr, rp);
  g_reqs[id] = {2, buf, (size_t)r.count, nullptr, 0, 0};
  *req = id;
  return rp.hdr.err;
}
int MPI_Test(MPI_Request *req, int *flag, MPI_Status *st) {
  if (*req == MPI_REQUEST_NULL) { *flag = 1; return MPI_SUCCESS; }
  SimReq r = mk(OP_TEST, 0);
  r.nreq = 1; r.reqs[0] = *req;
  Reply rp;
  int kind = g_reqs.count(*req) ? g_reqs[*req].kind : 0;
  rpc(r, nullptr, rp);
  *flag = rp.hdr.flag;
  if (g_log) {
    fprintf(g_log, "C %llu TEST req=%d kind=%d -> %d", (unsigned long long)g_step, *req, kind, rp.hdr.flag);
    if (rp.hdr.flag && rp.hdr.n == 1 && kind != 1) { fprintf(g_log, " src=%d", rp.items[0].src); loghex(rp.pay[0].data(), rp.pay[0].size()); }
    fputc('\n', g_log);
  }
  if (rp.hdr.flag) {
    complete(*req, rp.items[0], rp.pay[0], st);
    *req = MPI_REQUEST_NULL;
  }
  return rp.hdr.err;
}
int MPI_Waitsome(int incount, MPI_Request reqs[], int *outcount, int indices[], MPI_Status statuses[]) {
  if (incount > SIM_MAXREQ) die("MPI_Waitsome: too many requests for simmpi");
  SimReq r = mk(OP_WAITSOME, 0);
  r.nreq = incount;
  int kinds[SIM_MAXREQ];
  for (int i = 0; i < incount; ++i) { r.reqs[i] = reqs[i]; kinds[i] = g_reqs.count(reqs[i]) ? g_reqs[reqs[i]].kind : 0; }
  Reply rp;
  rpc(r, nullptr, rp);
  *outcount = rp.hdr.n;
  if (g_log) {
    fprintf(g_log, "C %llu WAITSOME n=%d", (unsigned long long)g_step, incount);
    for (int i = 0; i < incount; ++i) fprintf(g_log, " req=%d/%d", reqs[i], kinds[i]);
    fprintf(g_log, " -> %d", rp.hdr.n);
  }
  for (int i = 0; i < rp.hdr.n; ++i) {
    int idx = rp.items[i].idx;
    indices[i] = idx;
    if (g_log) { fprintf(g_log, " [%d", idx); if (kinds[idx] != 1) { fprintf(g_log, " src=%d", rp.items[i].src); loghex(rp.pay[i].data(), rp.pay[i].size()); } fputc(']', g_log); }
    complete(reqs[idx], rp.items[i], rp.pay[i], statuses ? &statuses[i] : nullptr);
    reqs[idx] = MPI_REQUEST_NULL;
  }
  if (g_log) fputc('\n', g_log);
  return rp.hdr.err;
}
// ---- convenience calls layered on the primitives above, so that a harmless switch of the library to one of them does not stop
// the harnesses from building (their log lines are the primitives' lines) ----
int MPI_Wait(MPI_Request *req, MPI_Status *st) {
  if (*req == MPI_REQUEST_NULL) return MPI_SUCCESS;
  int outcount = 0, idx = 0;
  MPI_Status s1;
  int err = MPI_Waitsome(1, req, &outcount, &idx, &s1);
  if (st && outcount == 1) *st = s1;
  return err;
}
int MPI_Waitall(int count, MPI_Request reqs[], MPI_Status statuses[]) {
  int err = MPI_SUCCESS;
  for (int i = 0; i < count; ++i) { int e = MPI_Wait(&reqs[i], statuses ? &statuses[i] : nullptr); if (e != MPI_SUCCESS) err = e; }
  return err;
}
int MPI_Waitany(int count, MPI_Request reqs[], int *index, MPI_Status *st) {
  bool any = false;
  for (int i = 0; i < count; ++i) any = any || reqs[i] != MPI_REQUEST_NULL;
  if (!any) { *index = MPI_UNDEFINED; return MPI_SUCCESS; }
  if (count > SIM_MAXREQ) die("MPI_Waitany: too many requests for simmpi");
  int outcount = 0, indices[SIM_MAXREQ];
  MPI_Status sts[SIM_MAXREQ];
  // MPI_Waitsome may complete several: only the first is reported here, the others stay completed-and-null, which a caller of
  // MPI_Waitany does not expect; refuse rather than mis-simulate
  int live = 0, which = -1;
  for (int i = 0; i < count; ++i) if (reqs[i] != MPI_REQUEST_NULL) { ++live; which = i; }
  if (live != 1) die("MPI_Waitany over several live requests is not simulated");
  int err = MPI_Waitsome(1, &reqs[which], &outcount, indices, sts);
  *index = which;
  if (st) *st = sts[0];
  return err;
}
int MPI_Testall(int count, MPI_Request reqs[], int *flag, MPI_Status statuses[]) {
  int err = MPI_SUCCESS;
  *flag = 1;
  for (int i = 0; i < count; ++i) {
    int f = 0;
    int e = MPI_Test(&reqs[i], &f, statuses ? &statuses[i] : nullptr);
    if (e != MPI_SUCCESS) err = e;
    if (!f) *flag = 0;
  }
  return err;
}
int MPI_Testany(int count, MPI_Request reqs[], int *index, int *flag, MPI_Status *st) {
  *flag = 0; *index = MPI_UNDEFINED;
  bool any = false;
  for (int i = 0; i < count; ++i) {
    if (reqs[i] == MPI_REQUEST_NULL) continue;
    any = true;
    int f = 0;
    int e = MPI_Test(&reqs[i], &f, st);
    if (e != MPI_SUCCESS) return e;
    if (f) { *flag = 1; *index = i; return MPI_SUCCESS; }
  }
  if (!any) *flag = 1;
  return MPI_SUCCESS;
}
int MPI_Testsome(int incount, MPI_Request reqs[], int *outcount, int indices[], MPI_Status statuses[]) {
  *outcount = 0;
  bool any = false;
  for (int i = 0; i < incount; ++i) {
    if (reqs[i] == MPI_REQUEST_NULL) continue;
    any = true;
    int f = 0;
    MPI_Status s1;
    int e = MPI_Test(&reqs[i], &f, &s1);
    if (e != MPI_SUCCESS) return e;
    if (f) { if (statuses) statuses[*outcount] = s1; indices[(*outcount)++] = i; }
  }
  if (!any) *outcount = MPI_UNDEFINED;
  return MPI_SUCCESS;
}
int MPI_Reduce(const void *sb, void *rb, int count, MPI_Datatype dt, MPI_Op op, int root, MPI_Comm c) {
  std::vector<char> tmp((size_t)count * (size_t)(dt & 0xff));
  int err = MPI_Allreduce(sb, tmp.data(), count, dt, op, c);
  int me = 0;
  MPI_Comm_rank(c, &me);
  if (me == root) memcpy(rb, tmp.data(), tmp.size());
  return err;
}
int MPI_Ssend(const void *buf, int count, MPI_Datatype dt, int dest, int tag, MPI_Comm c) { return MPI_Send(buf, count, dt, dest, tag, c); }
int MPI_Finalized(int *flag) { *flag = 0; return MPI_SUCCESS; }
int MPI_Cancel(MPI_Request *req) {
  SimReq r = mk(OP_CANCEL, 0);
  r.nreq = 1; r.reqs[0] = *req;
  Reply rp;
  rpc(r, nullptr, rp);
  if (g_log) fprintf(g_log, "C %llu CANCEL req=%d\n", (unsigned long long)g_step, *req);
  return rp.hdr.err;
}
int MPI_Get_count(const MPI_Status *st, MPI_Datatype dt, int *count) {
  *count = st->_count / (int)dtsize(dt);
  return MPI_SUCCESS;
}
}  // extern "C"
