// simrun.cpp — launcher + single-threaded coordinator of simmpi (DESIGN.md §3.1).
//
//   simrun -n <ranks> [-ppn <k>] [-seed <s>] [-policy uniform|late|early|delayreduce|starve]
//          [-eager <bytes>] [-logdir <dir>] [-glog <file>] [-maxsteps <n>] [-spin <n>] [-wall <sec>]
//          [-env K=V]... -- <program> [args...]
//
// Forks <ranks> processes of <program>; owns communicators, message queues,
// posted receives and collective rendezvous; exactly one rank runs at a time.
// A run is a deterministic function of (program, arguments, seed, policy).
// Last stdout line:  RESULT <ok|deadlock|spin|abort|steplimit|misuse|wall> steps=<n> ...
#include "simproto.h"
#include <algorithm>
#include <deque>
#include <map>
#include <set>
#include <signal.h>
#include <sys/socket.h>
#include <sys/wait.h>
#include <time.h>

struct Pending {
  SimReq rq;
  std::vector<char> pay;
};

struct SendRec {
  long id; int comm, src, dst, tag;      // src/dst world ranks
  std::vector<char> bytes;
  bool sync, arrived = false, matched = false, completed = false, blocking = false, released = false;
  int reqid;
  uint64_t post_step;
};
struct RecvRec {
  long id; int comm, owner, src /*world or -1*/, tag;
  uint64_t cap; int reqid; bool blocking = false, cancelled = false;
  bool matched = false;
  std::vector<char> data; int from = -1; int mtag = 0;
};
struct Coll {
  int comm; long seq; int kind; int root, dtype, rop; uint64_t count;
  std::map<int, std::vector<char>> contrib;      // world rank -> bytes
  std::map<int, std::pair<int, int>> colorkey;   // split
  std::map<int, int> reqid;                      // iallreduce request per world rank
  std::set<int> returned;                        // members that have been answered / completed
  std::set<int> completed_for;                   // iallreduce: completion visible at member
  bool computed = false;
  std::vector<char> result;                      // allreduce / bcast / allgather
  std::map<int, std::vector<char>> presult;      // exscan per rank
  std::map<int, int> newcomm;                    // dup/split: world rank -> cid
};
struct CommRec { std::vector<int> members; bool freed_by_all = false; std::set<int> freed; };

enum RState { R_WAITREQ, R_PENDING, R_ISSUED, R_DONE };
struct Rank {
  int fd = -1; pid_t pid = 0; RState st = R_WAITREQ;
  Pending cur; long blocking_id = -1;
  int neg = 0; bool finalized = false; int exit_status = 0; bool exited = false;
  std::map<int, long> req2send, req2recv; std::map<int, std::pair<int, long>> req2coll;
  std::map<int, long> collseq;            // per comm
};

static int N = 1, PPN = 0;
static bool CYCLIC = false;
static std::vector<int> PLACEMENT;   // explicit node label of every world rank (any uniform placement)   // ranks placed on the nodes round-robin (mpirun --map-by node) instead of in blocks
static uint64_t seed = 1, step = 0, last_progress = 0, maxsteps = 20000000ull, spinlimit = 200000ull;
static std::string policy = "uniform", glogpath, logdir;
static uint64_t eager = 4096;
static double walllimit = 120;
static std::vector<Rank> R;
static std::map<int, CommRec> comms;
static int next_cid = 1;
static long next_id = 1;
static std::map<long, SendRec> sends;
static std::map<long, RecvRec> recvs;
static std::map<std::pair<int, long>, Coll> colls;
static FILE *glog = nullptr;
static std::string misuse;
static uint64_t n_answers = 0, n_net = 0, n_negpoll = 0, n_msgs = 0, bytes_msgs = 0;

static uint64_t rng_state;
static uint64_t rnd() {
  uint64_t z = (rng_state += 0x9e3779b97f4a7c15ull);
  z = (z ^ (z >> 30)) * 0xbf58476d1ce4e5b9ull;
  z = (z ^ (z >> 27)) * 0x94d049bb133111ebull;
  return z ^ (z >> 31);
}

#define GLOG(...) do { if (glog) { fprintf(glog, "%llu ", (unsigned long long)step); fprintf(glog, __VA_ARGS__); fputc('\n', glog); } } while (0)

static int comm_rank_of(int cid, int world) {
  auto &m = comms[cid].members;
  for (size_t i = 0; i < m.size(); ++i) if (m[i] == world) return (int)i;
  return -1;
}

static bool read_request(int r) {
  Rank &k = R[r];
  if (!sim_read_all(k.fd, &k.cur.rq, sizeof(SimReq))) { k.st = R_DONE; k.exited = true; return false; }
  k.cur.pay.resize(k.cur.rq.paylen);
  if (k.cur.rq.paylen && !sim_read_all(k.fd, k.cur.pay.data(), k.cur.rq.paylen)) { k.st = R_DONE; k.exited = true; return false; }
  k.st = R_PENDING;
  return true;
}

struct Item { SimItem it; const std::vector<char> *pay; };
static void reply(int r, int err, int flag, int v0, int v1, int v2, const std::vector<Item> &items) {
  SimRep h;
  memset(&h, 0, sizeof h);
  h.err = err; h.flag = flag; h.val0 = v0; h.val1 = v1; h.val2 = v2; h.step = step; h.n = (int)items.size();
  sim_write_all(R[r].fd, &h, sizeof h);
  for (auto &i : items) {
    SimItem it = i.it;
    it.paylen = i.pay ? i.pay->size() : 0;
    sim_write_all(R[r].fd, &it, sizeof it);
    if (it.paylen) sim_write_all(R[r].fd, i.pay->data(), it.paylen);
  }
  ++n_answers;
  read_request(r);
}

// a send record is dropped once its request was released to the rank AND its data was delivered
static void maybe_drop_send(long id) {
  auto f = sends.find(id);
  if (f != sends.end() && f->second.released && f->second.matched) sends.erase(f);
}
// ---- matching -------------------------------------------------------------
static bool recv_accepts(const RecvRec &rv, const SendRec &s) {
  return !rv.matched && !rv.cancelled && rv.comm == s.comm && rv.owner == s.dst && (rv.src < 0 || rv.src == s.src) &&
         (rv.tag < 0 || rv.tag == s.tag);
}
static void do_match(SendRec &s, RecvRec &rv) {
  if (s.bytes.size() > rv.cap) {
    misuse = "message of " + std::to_string(s.bytes.size()) + " bytes from rank " + std::to_string(s.src) +
             " truncated by a receive of capacity " + std::to_string(rv.cap) + " on rank " + std::to_string(rv.owner);
    return;
  }
  s.matched = true;
  rv.matched = true; rv.data = s.bytes; rv.from = comm_rank_of(s.comm, s.src); rv.mtag = s.tag;
  GLOG("MATCH sid=%ld rid=%ld src=%d dst=%d len=%zu", s.id, rv.id, s.src, s.dst, s.bytes.size());
}
static void on_arrive(SendRec &s) {
  s.arrived = true;
  for (auto &kv : recvs) if (recv_accepts(kv.second, s)) { do_match(s, kv.second); return; }
}
static void on_post_recv(RecvRec &rv) {
  // oldest arrived unmatched send that this receive accepts (arrival order == id order per channel;
  // across channels we use post order, which is one legal choice)
  for (auto &kv : sends) {
    SendRec &s = kv.second;
    if (s.arrived && !s.matched && recv_accepts(rv, s)) { do_match(s, rv); long id = s.id; maybe_drop_send(id); return; }
  }
}

// ---- collectives ----------------------------------------------------------
template <typename T> static void red(T *acc, const T *x, uint64_t n, int op) {
  for (uint64_t i = 0; i < n; ++i) {
    switch (op) {
      case 1: acc[i] = (T)(acc[i] + x[i]); break;
      case 2: acc[i] = x[i] < acc[i] ? x[i] : acc[i]; break;
      case 3: acc[i] = x[i] > acc[i] ? x[i] : acc[i]; break;
      case 4: acc[i] = (T)(acc[i] && x[i]); break;
      case 5: acc[i] = (T)(acc[i] || x[i]); break;
    }
  }
}
static void reduce_into(std::vector<char> &acc, const std::vector<char> &x, int dt, int op, uint64_t n) {
  int kind = dt >> 8, sz = dt & 0xff;
#define RED(T) red<T>((T *)acc.data(), (const T *)x.data(), n, op)
  if (kind == 4) RED(bool);
  else if (kind == 3 && sz == 4) RED(float);
  else if (kind == 3 && sz == 8) RED(double);
  else if (kind == 3 && sz == 16) RED(long double);
  else if ((kind == 1 || kind == 0) && sz == 1) RED(int8_t);
  else if (kind == 1 && sz == 2) RED(int16_t);
  else if (kind == 1 && sz == 4) RED(int32_t);
  else if (kind == 1 && sz == 8) RED(int64_t);
  else if (kind == 2 && sz == 1) RED(uint8_t);
  else if (kind == 2 && sz == 2) RED(uint16_t);
  else if (kind == 2 && sz == 4) RED(uint32_t);
  else if (kind == 2 && sz == 8) RED(uint64_t);
  else misuse = "reduction on unsupported datatype " + std::to_string(dt);
#undef RED
}

static bool coll_all_arrived(const Coll &c) {
  size_t need = comms[c.comm].members.size();
  if (c.kind == OP_COMM_SPLIT) return c.colorkey.size() == need;
  return c.contrib.size() == need;
}
static void coll_compute(Coll &c) {
  if (c.computed) return;
  c.computed = true;
  auto &mem = comms[c.comm].members;
  if (c.kind == OP_ALLREDUCE || c.kind == OP_IALLREDUCE) {
    c.result = c.contrib[mem[0]];
    for (size_t i = 1; i < mem.size(); ++i) reduce_into(c.result, c.contrib[mem[i]], c.dtype, c.rop, c.count);
  } else if (c.kind == OP_EXSCAN) {
    std::vector<char> acc;
    for (size_t i = 0; i < mem.size(); ++i) {
      if (i > 0) c.presult[mem[i]] = acc;
      if (i == 0) acc = c.contrib[mem[0]]; else reduce_into(acc, c.contrib[mem[i]], c.dtype, c.rop, c.count);
    }
  } else if (c.kind == OP_ALLGATHER) {
    for (int w : mem) c.result.insert(c.result.end(), c.contrib[w].begin(), c.contrib[w].end());
  } else if (c.kind == OP_COMM_DUP) {
    int cid = next_cid++;
    comms[cid].members = mem;
    for (int w : mem) c.newcomm[w] = cid;
  } else if (c.kind == OP_COMM_SPLIT) {
    std::map<int, std::vector<std::pair<std::pair<int, int>, int>>> groups;
    for (size_t i = 0; i < mem.size(); ++i) {
      int w = mem[i];
      int color = c.colorkey[w].first;
      if (color == -7777) color = !PLACEMENT.empty() ? PLACEMENT[w] : CYCLIC ? w % (N / PPN) : w / PPN;
      groups[color].push_back({{c.colorkey[w].second, (int)i}, w});
    }
    for (auto &g : groups) {
      if (g.first == -32766) continue;   // MPI_UNDEFINED
      std::sort(g.second.begin(), g.second.end());
      int cid = next_cid++;
      for (auto &e : g.second) { comms[cid].members.push_back(e.second); c.newcomm[e.second] = cid; }
    }
  }
}

static Coll &coll_for(int r, const SimReq &q) {
  long seq = R[r].collseq[q.comm]++;
  auto key = std::make_pair((int)q.comm, seq);
  auto f = colls.find(key);
  if (f == colls.end()) {
    Coll c; c.comm = q.comm; c.seq = seq; c.kind = q.op; c.root = q.root; c.dtype = q.dtype; c.rop = q.rop; c.count = q.count;
    f = colls.emplace(key, std::move(c)).first;
  } else {
    Coll &c = f->second;
    if (c.kind != q.op || (q.op != OP_BCAST && q.op != OP_COMM_DUP && q.op != OP_COMM_SPLIT && q.op != OP_BARRIER &&
                           q.op != OP_ALLGATHER && (c.dtype != q.dtype || c.rop != q.rop || c.count != q.count)) ||
        (q.op == OP_BCAST && c.root != q.root))
      misuse = std::string("collective mismatch on comm ") + std::to_string(q.comm) + ": rank " + std::to_string(r) + " calls " +
               SIM_OPNAME[q.op] + " while another member called " + SIM_OPNAME[c.kind];
  }
  return f->second;
}

// ---- actions ---------------------------------------------------------------
enum AKind { A_RUN, A_ARRIVE, A_SENDDONE, A_COLLDONE };
struct Action { AKind k; int rank; long id; int comm; long seq; double w; };

static bool request_complete(int r, int reqid, bool peek = true) {
  Rank &k = R[r];
  auto s = k.req2send.find(reqid);
  if (s != k.req2send.end()) return sends[s->second].completed;
  auto v = k.req2recv.find(reqid);
  if (v != k.req2recv.end()) return recvs[v->second].matched;
  auto c = k.req2coll.find(reqid);
  if (c != k.req2coll.end()) return colls[{c->second.first, c->second.second}].completed_for.count(r) > 0;
  return false;
}

static bool blocking_ready(int r) {
  Rank &k = R[r];
  const SimReq &q = k.cur.rq;
  switch (q.op) {
    case OP_SEND: return sends[k.blocking_id].completed;
    case OP_RECV: return recvs[k.blocking_id].matched;
    case OP_BCAST: {
      Coll &c = colls[{q.comm, k.blocking_id}];
      return c.contrib.count(comms[q.comm].members[c.root]) > 0;
    }
    case OP_BARRIER: case OP_ALLREDUCE: case OP_EXSCAN: case OP_ALLGATHER: case OP_COMM_DUP: case OP_COMM_SPLIT:
      return coll_all_arrived(colls[{q.comm, k.blocking_id}]);
    case OP_FINALIZE: {
      for (auto &x : R) if (!x.finalized) return false;
      return true;
    }
    default: return true;
  }
}

static bool is_neg_poll(int r) {
  const SimReq &q = R[r].cur.rq;
  return q.op == OP_TEST && !request_complete(r, q.reqs[0]);
}

static void collect(std::vector<Action> &acts) {
  bool late = policy == "late", early = policy == "early", dr = policy == "delayreduce", starve = policy == "starve";
  int starved = (int)(seed % (uint64_t)N);
  double wnet = late ? 0.02 : (early ? 50.0 : 1.0);
  for (int r = 0; r < N; ++r) {
    Rank &k = R[r];
    double w = 1.0;
    if (starve && r == starved) w = 0.01;
    if (k.st == R_PENDING) {
      const SimReq &q = k.cur.rq;
      if (q.op == OP_WAITSOME) {
        bool any = false;
        for (int i = 0; i < q.nreq; ++i) any = any || request_complete(r, q.reqs[i]);
        if (!any) continue;
      }
      if (q.op == OP_TEST && k.neg >= 4 && is_neg_poll(r)) w *= 0.05;
      acts.push_back({A_RUN, r, 0, 0, 0, w});
    } else if (k.st == R_ISSUED) {
      if (blocking_ready(r)) acts.push_back({A_RUN, r, 0, 0, 0, w});
    }
  }
  // network: head of each channel may arrive; sends may complete
  std::set<std::tuple<int, int, int>> seen;
  for (auto &kv : sends) {
    SendRec &s = kv.second;
    if (!s.arrived) {
      auto ch = std::make_tuple(s.comm, s.src, s.dst);
      if (!seen.count(ch)) { seen.insert(ch); acts.push_back({A_ARRIVE, s.src, s.id, 0, 0, wnet}); }
    }
    if (!s.completed) {
      bool rendezvous = s.sync || s.bytes.size() > eager;
      if (!rendezvous || s.matched) acts.push_back({A_SENDDONE, s.src, s.id, 0, 0, wnet});
    }
  }
  for (auto &kv : colls) {
    Coll &c = kv.second;
    if (c.kind == OP_IALLREDUCE && coll_all_arrived(c))
      for (int w : comms[c.comm].members)
        if (!c.completed_for.count(w)) acts.push_back({A_COLLDONE, w, 0, c.comm, c.seq, dr ? 0.01 : wnet});
  }
}

static void finish_coll_member(Coll &c, int r) {
  c.returned.insert(r);
  if (c.returned.size() == comms[c.comm].members.size()) colls.erase({c.comm, c.seq});
}

static void run_rank(int r) {
  Rank &k = R[r];
  const SimReq &q = k.cur.rq;
  bool progress = true;
  if (k.st == R_PENDING) {
    switch (q.op) {
      case OP_INIT:
        GLOG("INIT r=%d", r);
        reply(r, 0, 0, r, N, PPN, {});
        break;
      case OP_ABORT:
        GLOG("ABORT r=%d code=%d", r, q.key);
        misuse = "MPI_Abort called by rank " + std::to_string(r);
        reply(r, 0, 0, 0, 0, 0, {});
        break;
      case OP_COMM_FREE:
        comms[q.comm].freed.insert(r);
        reply(r, 0, 0, 0, 0, 0, {});
        break;
      case OP_ISEND: {
        SendRec s; s.id = next_id++; s.comm = q.comm; s.src = r; s.dst = comms[q.comm].members.at(q.peer); s.tag = q.tag;
        s.bytes = k.cur.pay; s.sync = q.sync != 0; s.reqid = q.reqs[0]; s.post_step = step;
        k.req2send[q.reqs[0]] = s.id;
        ++n_msgs; bytes_msgs += s.bytes.size();
        GLOG("POST sid=%ld src=%d dst=%d comm=%d len=%zu sync=%d", s.id, s.src, s.dst, s.comm, s.bytes.size(), (int)s.sync);
        sends.emplace(s.id, std::move(s));
        reply(r, 0, 0, 0, 0, 0, {});
        break;
      }
      case OP_IRECV: {
        RecvRec v; v.id = next_id++; v.comm = q.comm; v.owner = r; v.src = q.peer < 0 ? -1 : comms[q.comm].members.at(q.peer);
        v.tag = q.tag; v.cap = q.count; v.reqid = q.reqs[0];
        k.req2recv[q.reqs[0]] = v.id;
        long id = v.id;
        recvs.emplace(id, std::move(v));
        on_post_recv(recvs[id]);
        reply(r, 0, 0, 0, 0, 0, {});
        break;
      }
      case OP_IALLREDUCE: {
        Coll &c = coll_for(r, q);
        c.contrib[r] = k.cur.pay;
        c.reqid[r] = q.reqs[0];
        k.req2coll[q.reqs[0]] = {c.comm, c.seq};
        GLOG("IALLREDUCE r=%d comm=%d seq=%ld", r, c.comm, c.seq);
        reply(r, 0, 0, 0, 0, 0, {});
        break;
      }
      case OP_CANCEL: {
        auto f = k.req2recv.find(q.reqs[0]);
        if (f != k.req2recv.end()) recvs[f->second].cancelled = true;
        reply(r, 0, 0, 0, 0, 0, {});
        break;
      }
      case OP_TEST: case OP_WAITSOME: {
        std::vector<Item> items;
        std::vector<long> free_s, free_r;
        std::vector<std::pair<int, long>> done_colls;
        for (int i = 0; i < q.nreq; ++i) {
          int id = q.reqs[i];
          if (!request_complete(r, id)) continue;
          SimItem it; memset(&it, 0, sizeof it); it.idx = i;
          auto s = k.req2send.find(id);
          if (s != k.req2send.end()) {
            items.push_back({it, nullptr});
            free_s.push_back(s->second); k.req2send.erase(s);
            continue;
          }
          auto v = k.req2recv.find(id);
          if (v != k.req2recv.end()) {
            RecvRec &rv = recvs[v->second];
            it.src = rv.from; it.tag = rv.mtag; it.count = rv.data.size();
            items.push_back({it, &rv.data});
            free_r.push_back(v->second); k.req2recv.erase(v);
            continue;
          }
          auto c = k.req2coll.find(id);
          if (c != k.req2coll.end()) {
            Coll &cl = colls[{c->second.first, c->second.second}];
            it.count = cl.result.size();
            items.push_back({it, &cl.result});
            done_colls.push_back(c->second);
            k.req2coll.erase(c);
            continue;
          }
        }
        if (items.empty()) { progress = false; ++n_negpoll; k.neg++; } else k.neg = 0;
        // the payload pointers must stay valid until written: reply first, then free
        reply(r, 0, items.empty() ? 0 : 1, 0, 0, 0, items);
        for (long id : free_s) { sends[id].released = true; maybe_drop_send(id); }
        for (long id : free_r) recvs.erase(id);
        for (auto &dc : done_colls) finish_coll_member(colls[{dc.first, dc.second}], r);
        break;
      }
      // blocking operations: issue now, return later
      case OP_SEND: {
        SendRec s; s.id = next_id++; s.comm = q.comm; s.src = r; s.dst = comms[q.comm].members.at(q.peer); s.tag = q.tag;
        s.bytes = k.cur.pay; s.sync = false; s.reqid = -1; s.blocking = true; s.post_step = step;
        k.blocking_id = s.id;
        GLOG("POST sid=%ld src=%d dst=%d comm=%d len=%zu blocking", s.id, s.src, s.dst, s.comm, s.bytes.size());
        sends.emplace(s.id, std::move(s));
        k.st = R_ISSUED;
        break;
      }
      case OP_RECV: {
        RecvRec v; v.id = next_id++; v.comm = q.comm; v.owner = r; v.src = q.peer < 0 ? -1 : comms[q.comm].members.at(q.peer);
        v.tag = q.tag; v.cap = q.count; v.reqid = -1; v.blocking = true;
        k.blocking_id = v.id;
        long id = v.id;
        recvs.emplace(id, std::move(v));
        on_post_recv(recvs[id]);
        k.st = R_ISSUED;
        break;
      }
      case OP_FINALIZE:
        k.finalized = true;
        k.st = R_ISSUED;
        GLOG("FINALIZE r=%d", r);
        break;
      case OP_BARRIER: case OP_ALLREDUCE: case OP_EXSCAN: case OP_BCAST: case OP_ALLGATHER: case OP_COMM_DUP: case OP_COMM_SPLIT: {
        Coll &c = coll_for(r, q);
        if (q.op == OP_COMM_SPLIT) c.colorkey[r] = {q.color, q.key};
        else if (q.op == OP_BCAST) { if (comm_rank_of(q.comm, r) == q.root) c.contrib[r] = k.cur.pay; }
        else c.contrib[r] = k.cur.pay;
        k.blocking_id = c.seq;
        k.st = R_ISSUED;
        GLOG("COLL r=%d %s comm=%d seq=%ld", r, SIM_OPNAME[q.op], c.comm, c.seq);
        break;
      }
      default:
        misuse = "unknown request op " + std::to_string((int)q.op) + " from rank " + std::to_string(r);
    }
  } else {  // R_ISSUED and ready: return
    switch (q.op) {
      case OP_SEND: {
        long id = k.blocking_id;
        reply(r, 0, 0, 0, 0, 0, {});
        sends[id].released = true; maybe_drop_send(id);
        break;
      }
      case OP_RECV: {
        long id = k.blocking_id;
        RecvRec &rv = recvs[id];
        SimItem it; memset(&it, 0, sizeof it); it.src = rv.from; it.tag = rv.mtag; it.count = rv.data.size();
        reply(r, 0, 1, 0, 0, 0, {{it, &rv.data}});
        recvs.erase(id);
        break;
      }
      case OP_FINALIZE:
        reply(r, 0, 0, 0, 0, 0, {});
        break;
      case OP_BCAST: {
        int comm = q.comm;
        Coll &c = colls[{comm, k.blocking_id}];
        int rootw = comms[comm].members[c.root];
        SimItem it; memset(&it, 0, sizeof it);
        bool isroot = rootw == r;
        std::vector<char> copy = c.contrib[rootw];
        long seq = k.blocking_id;
        if (isroot) reply(r, 0, 0, 0, 0, 0, {}); else reply(r, 0, 1, 0, 0, 0, {{it, &copy}});
        finish_coll_member(colls[{comm, seq}], r);
        break;
      }
      default: {
        int comm = q.comm; long seq = k.blocking_id; int op = q.op;
        Coll &c = colls[{comm, seq}];
        coll_compute(c);
        SimItem it; memset(&it, 0, sizeof it);
        if (op == OP_BARRIER) reply(r, 0, 0, 0, 0, 0, {});
        else if (op == OP_ALLREDUCE || op == OP_ALLGATHER) { std::vector<char> copy = c.result; reply(r, 0, 1, 0, 0, 0, {{it, &copy}}); }
        else if (op == OP_EXSCAN) {
          if (c.presult.count(r)) { std::vector<char> copy = c.presult[r]; reply(r, 0, 1, 0, 0, 0, {{it, &copy}}); }
          else reply(r, 0, 0, 0, 0, 0, {});
        } else {  // dup / split
          int cid = c.newcomm.count(r) ? c.newcomm[r] : -1;
          int nr = cid >= 0 ? comm_rank_of(cid, r) : -1;
          int ns = cid >= 0 ? (int)comms[cid].members.size() : 0;
          reply(r, 0, 0, cid, nr, ns, {});
        }
        finish_coll_member(colls[{comm, seq}], r);
      }
    }
  }
  if (progress) last_progress = step;
}

static const char *state_of(int r, char *buf, size_t n) {
  Rank &k = R[r];
  if (k.st == R_DONE) { snprintf(buf, n, "exited%s", k.finalized ? " (finalized)" : " WITHOUT MPI_Finalize"); return buf; }
  const SimReq &q = k.cur.rq;
  snprintf(buf, n, "%s %s comm=%d%s", k.st == R_ISSUED ? "blocked-in" : "pending", SIM_OPNAME[q.op < OP_LAST ? q.op : 0], q.comm,
           (q.op == OP_TEST || q.op == OP_WAITSOME) ? " (polling)" : "");
  return buf;
}

int main(int argc, char **argv) {
  std::vector<std::string> envs;
  int i = 1;
  for (; i < argc; ++i) {
    std::string a = argv[i];
    if (a == "--") { ++i; break; }
    auto next = [&]() { return std::string(argv[++i]); };
    if (a == "-n") N = atoi(next().c_str());
    else if (a == "-ppn") PPN = atoi(next().c_str());
    else if (a == "-cyclic") CYCLIC = true;
    else if (a == "-placement") { std::string v = next(); size_t p = 0; while (p < v.size()) { size_t q = v.find(',', p); if (q == std::string::npos) q = v.size(); PLACEMENT.push_back(atoi(v.substr(p, q - p).c_str())); p = q + 1; } }
    else if (a == "-seed") seed = strtoull(next().c_str(), nullptr, 10);
    else if (a == "-policy") policy = next();
    else if (a == "-eager") eager = strtoull(next().c_str(), nullptr, 10);
    else if (a == "-logdir") logdir = next();
    else if (a == "-glog") glogpath = next();
    else if (a == "-maxsteps") maxsteps = strtoull(next().c_str(), nullptr, 10);
    else if (a == "-spin") spinlimit = strtoull(next().c_str(), nullptr, 10);
    else if (a == "-wall") walllimit = atof(next().c_str());
    else if (a == "-env") envs.push_back(next());
    else { fprintf(stderr, "simrun: unknown option %s\n", a.c_str()); return 2; }
  }
  if (i >= argc) { fprintf(stderr, "usage: simrun -n N [...] -- program args\n"); return 2; }
  if (PPN <= 0) PPN = N;
  rng_state = seed * 0x2545F4914F6CDD1Dull + 12345;
  signal(SIGPIPE, SIG_IGN);
  if (!glogpath.empty()) glog = fopen(glogpath.c_str(), "w");
  R.resize(N);
  comms[0].members.resize(N);
  for (int r = 0; r < N; ++r) comms[0].members[r] = r;
  std::vector<int> childfds(N);
  for (int r = 0; r < N; ++r) {
    int sv[2];
    if (socketpair(AF_UNIX, SOCK_STREAM, 0, sv) != 0) { perror("socketpair"); return 2; }
    R[r].fd = sv[0];
    childfds[r] = sv[1];
  }
  for (int r = 0; r < N; ++r) {
    pid_t pid = fork();
    if (pid == 0) {
      for (int x = 0; x < N; ++x) { close(R[x].fd); if (x != r) close(childfds[x]); }
      char b[64];
      snprintf(b, sizeof b, "%d", childfds[r]); setenv("SIMMPI_FD", b, 1);
      snprintf(b, sizeof b, "%d", r); setenv("SIMMPI_RANK", b, 1);
      snprintf(b, sizeof b, "%d", N); setenv("SIMMPI_SIZE", b, 1);
      snprintf(b, sizeof b, "%d", PPN); setenv("SIMMPI_PPN", b, 1);
      if (!logdir.empty()) setenv("SIMMPI_LOGDIR", logdir.c_str(), 1);
      for (auto &e : envs) { auto p = e.find('='); if (p != std::string::npos) setenv(e.substr(0, p).c_str(), e.substr(p + 1).c_str(), 1); }
      execv(argv[i], argv + i);
      perror("execv");
      _exit(127);
    }
    R[r].pid = pid;
  }
  for (int r = 0; r < N; ++r) close(childfds[r]);
  for (int r = 0; r < N; ++r) read_request(r);

  struct timespec t0; clock_gettime(CLOCK_MONOTONIC, &t0);
  std::string verdict = "ok", detail;
  std::vector<Action> acts;
  while (true) {
    bool alldone = true;
    for (auto &k : R) if (k.st != R_DONE) alldone = false;
    if (alldone) break;
    // a rank that exited without finalizing is an abort
    bool dead = false;
    for (int r = 0; r < N; ++r) if (R[r].st == R_DONE && !R[r].finalized) { dead = true; detail = "rank " + std::to_string(r) + " exited without MPI_Finalize"; }
    if (dead) { verdict = "abort"; break; }
    if (!misuse.empty()) { verdict = misuse.rfind("MPI_Abort", 0) == 0 ? "abort" : "misuse"; detail = misuse; break; }
    acts.clear();
    collect(acts);
    if (acts.empty()) { verdict = "deadlock"; break; }
    if (step - last_progress > spinlimit) { verdict = "spin"; break; }
    if (step > maxsteps) { verdict = "steplimit"; break; }
    if ((step & 0xfff) == 0) {
      struct timespec t1; clock_gettime(CLOCK_MONOTONIC, &t1);
      if ((t1.tv_sec - t0.tv_sec) + 1e-9 * (t1.tv_nsec - t0.tv_nsec) > walllimit) { verdict = "wall"; break; }
    }
    double tot = 0;
    for (auto &a : acts) tot += a.w;
    double x = (double)(rnd() >> 11) / 9007199254740992.0 * tot;
    size_t pick = 0;
    for (; pick + 1 < acts.size(); ++pick) { if (x < acts[pick].w) break; x -= acts[pick].w; }
    Action a = acts[pick];
    ++step;
    switch (a.k) {
      case A_RUN: run_rank(a.rank); break;
      case A_ARRIVE: { ++n_net; last_progress = step; SendRec &s = sends[a.id]; GLOG("ARRIVE sid=%ld", s.id); on_arrive(s); maybe_drop_send(a.id); break; }
      case A_SENDDONE: {
        ++n_net; last_progress = step;
        SendRec &s = sends[a.id]; s.completed = true;
        GLOG("SENDDONE sid=%ld src=%d len=%zu", s.id, s.src, s.bytes.size());
        // the payload is no longer needed once it has been delivered to a receive
        break;
      }
      case A_COLLDONE: {
        ++n_net; last_progress = step;
        Coll &c = colls[{a.comm, a.seq}];
        coll_compute(c);
        c.completed_for.insert(a.rank);
        GLOG("COLLDONE comm=%d seq=%ld r=%d", a.comm, a.seq, a.rank);
        if (c.completed_for.size() == comms[c.comm].members.size()) { /* kept until every member has tested it */ }
        break;
      }
    }
    // garbage: completed+matched sends whose request was already tested are erased in TEST; sends that
    // are matched and completed but blocking are erased at return.
  }
  // report
  char buf[256];
  if (verdict != "ok") {
    for (int r = 0; r < N; ++r) printf("STATE rank=%d %s\n", r, state_of(r, buf, sizeof buf));
    for (auto &kv : sends) if (!kv.second.matched) printf("UNMATCHED-SEND sid=%ld src=%d dst=%d comm=%d len=%zu arrived=%d\n", kv.second.id, kv.second.src, kv.second.dst, kv.second.comm, kv.second.bytes.size(), (int)kv.second.arrived);
    for (auto &k : R) if (k.st != R_DONE) kill(k.pid, SIGKILL);
  }
  int worst = 0;
  for (int r = 0; r < N; ++r) {
    int st = 0;
    waitpid(R[r].pid, &st, 0);
    R[r].exit_status = st;
    if (verdict == "ok" || verdict == "abort") {
      if (WIFSIGNALED(st) && !(verdict != "ok" && WTERMSIG(st) == SIGKILL)) { printf("EXIT rank=%d signal=%d\n", r, WTERMSIG(st)); worst = 1; }
      else if (WIFEXITED(st) && WEXITSTATUS(st) != 0) { printf("EXIT rank=%d code=%d\n", r, WEXITSTATUS(st)); worst = 1; }
    }
  }
  if (verdict == "ok" && worst) { verdict = "abort"; detail = "a rank exited with non-zero status after finalize"; }
  // leftovers are a sign of lost messages
  size_t unmatched = 0;
  for (auto &kv : sends) if (!kv.second.matched) ++unmatched;
  printf("RESULT %s steps=%llu answers=%llu net=%llu negpolls=%llu msgs=%llu bytes=%llu unmatched_sends=%zu%s%s\n", verdict.c_str(),
         (unsigned long long)step, (unsigned long long)n_answers, (unsigned long long)n_net, (unsigned long long)n_negpoll,
         (unsigned long long)n_msgs, (unsigned long long)bytes_msgs, unmatched, detail.empty() ? "" : " detail=", detail.c_str());
  if (glog) fclose(glog);
  return verdict == "ok" ? 0 : 1;
}
