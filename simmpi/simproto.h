// simproto.h — frames exchanged between stub.cpp (rank side) and simrun.cpp (coordinator)
#pragma once
#include <stdint.h>
#include <string>
#include <vector>
#include <unistd.h>
#include <errno.h>
#include <string.h>
#include <stdlib.h>
#include <stdio.h>

enum SimOp : uint8_t {
  OP_INIT = 1, OP_FINALIZE, OP_ABORT, OP_COMM_DUP, OP_COMM_SPLIT, OP_COMM_FREE, OP_BARRIER, OP_ALLREDUCE,
  OP_IALLREDUCE, OP_EXSCAN, OP_BCAST, OP_ALLGATHER, OP_SEND, OP_RECV, OP_ISEND, OP_IRECV, OP_TEST, OP_WAITSOME,
  OP_CANCEL, OP_LAST
};

static const char *const SIM_OPNAME[] = {"?", "INIT", "FINALIZE", "ABORT", "COMM_DUP", "COMM_SPLIT", "COMM_FREE",
  "BARRIER", "ALLREDUCE", "IALLREDUCE", "EXSCAN", "BCAST", "ALLGATHER", "SEND", "RECV", "ISEND", "IRECV", "TEST",
  "WAITSOME", "CANCEL"};

#define SIM_MAXREQ 8

struct SimReq {
  uint8_t  op;
  int32_t  comm, peer, tag, root, dtype, rop, color, key, sync, nreq;
  int32_t  reqs[SIM_MAXREQ];
  uint64_t count;    // elements (collectives) or bytes (p2p) or capacity (recv)
  uint64_t paylen;
};

struct SimRep {
  int32_t  err, flag, val0, val1, val2;
  uint64_t step;
  int32_t  n;       // number of items following
};

struct SimItem {
  int32_t  idx;     // position in the Waitsome array (0 for Test)
  int32_t  src, tag;
  uint64_t count;   // bytes received
  uint64_t paylen;
};

static inline bool sim_write_all(int fd, const void *p, size_t n) {
  const char *c = (const char *)p;
  while (n) {
    ssize_t w = ::write(fd, c, n);
    if (w < 0) { if (errno == EINTR) continue; return false; }
    c += w; n -= (size_t)w;
  }
  return true;
}
static inline bool sim_read_all(int fd, void *p, size_t n) {
  char *c = (char *)p;
  while (n) {
    ssize_t r = ::read(fd, c, n);
    if (r < 0) { if (errno == EINTR) continue; return false; }
    if (r == 0) return false;
    c += r; n -= (size_t)r;
  }
  return true;
}
