#!/bin/sh
# Build the framework from files on disk only (offline).  Idempotent.
set -e
cd "$(dirname "$0")"
mkdir -p _build/bin _build/replays evidence ocaml/gen coq/Gen
python3 tools/cxx2coq.py --repo "${VERIF_REPO:-/repo}" --out coq/Gen --cache _build/astcache || true
cd coq
coq_makefile -f _CoqProject -o Makefile >/dev/null 2>&1
timeout 3000 make -k -j"$(nproc)" >/dev/null 2>../_build/coq_setup.log || true
cd ..
if [ -f tools/build_harnesses.py ]; then python3 tools/build_harnesses.py || true; fi
echo "setup done"
